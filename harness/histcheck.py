"""histcheck.py -- shared driver of the history-based checks: generate programs, run them on the implementation
(done while generating) and on the model (vm_compute inside Coq), compare the observations, evaluate the property's
oracle on the implementation's own observations, shrink and report."""
import json, os, time, copy
from fractions import Fraction as F
import common, dsl, gen

IMPORTS = 'Base Units Contents Container Dilute Solve Plate Prog'


def tol_scale(prog):
    """enzymes at low density turn 1e-10 activity units of rounding into 1e-7 uL of volume (DESIGN 4.4)"""
    k = float(prog.get('tol_k', 1.0))      # coarser storage units (configuration variants): ten decimals of a mmol are 1e-7 umol
    for s in prog['subs']:
        if s['kind'] == 'Enzyme':
            k = max(k, 1000.0 / float(s['dens']))
    return k


def model_obs(tag, progs, fn='showRun', imports=IMPORTS, chunk=8):
    terms = [dsl.to_coq(p, fn) for p in progs]
    res, errs = common.coq_eval(tag, imports, terms, chunk=chunk)
    out = []
    for p, r in zip(progs, res):
        if r is None:
            out.append(None)
            continue
        try:
            out.append(dsl.decode_run(r, len(p['ops'])))
        except Exception as e:  # noqa
            out.append(None)
            errs.append('decode: ' + str(e))
    return out, errs


def rerun(prog):
    im = dsl.Impl(prog['subs'])
    obs = im.run(prog['ops'])
    return obs, im


def shrink(prog, fails):
    """greedy: cut after the failing op, then drop earlier ops while the oracle still fails"""
    def still(p):
        try:
            obs, im = rerun(p)
            return bool(fails(p, obs, im))
        except Exception:  # noqa
            return False
    best = prog
    if not still(best):
        return best
    f = fails(*((best,) + rerun(best)))
    last = max(i for i, _ in f) if f else len(best['ops']) - 1
    cand = dict(best, ops=best['ops'][:last + 1])
    if still(cand):
        best = cand
    i = len(best['ops']) - 2
    while i >= 0:
        cand = dict(best, ops=best['ops'][:i] + best['ops'][i + 1:])
        if still(cand):
            best = cand
        i -= 1
    return best


def float_tie(prog, i, impl_decision, model_decisions):
    """the exact model and the float implementation take different decisions at op i: is the request on a feasibility boundary
    that float rounding of the history so far has moved by less than one part in a million (one part in a thousand for requests
    below a nano-unit)?  Decided by re-running both with the requested quantity of op i scaled by 1 - 1e-6 and by 1 + 1e-6: a tie iff both agree on both neighbours and the two neighbours
    are decided differently (the boundary lies between them).  Ties are counted in the evidence and not judged; directed
    exactly-on-boundary cases (short decimals, fresh containers: C03.boundary_cases) are not subject to this."""
    import copy
    from decimal import Decimal
    op = prog['ops'][i]
    if not (isinstance(op.get('q'), dict) and 'v' in op['q']):
        return False
    bands = [('0.999999', '1.000001')]
    try:
        if abs(dsl.qty_val(op['q'])) < F(1, 10**9):
            # requests below a nanolitre / nanogram / nanomole: ten decimals of a micro-unit are up to 1e-4 of the request itself
            bands.append(('0.999', '1.001'))
    except Exception:  # noqa
        pass
    for lo, hi in bands:
        ps = []
        for f in (lo, hi):
            p2 = copy.deepcopy(dict(prog, ops=prog['ops'][:i + 1]))
            p2['ops'][i]['q']['v'] = format(Decimal(str(p2['ops'][i]['q']['v'])) * Decimal(f), 'f')
            ps.append(p2)
        try:
            a = [bool(impl_decision(p, i)) for p in ps]
            m = model_decisions(ps, i)
        except Exception:  # noqa
            return False
        if None not in m and a == [bool(x) for x in m] and a[0] != a[1]:
            return True
    return False


def run(chk, gens, oracle, tag, rule, nontrivial_key, model_fn='showRun', imports=IMPORTS, atol=1e-8, rtol=2e-8,
        corpus=(), extra_cov=None):
    """gens: list of Gen objects already run on the implementation (g.prog(), g.obs, g.impl).
    oracle(prog, obs, impl) -> list of (op index, message) where the PROPERTY fails on the implementation."""
    t0 = time.time()
    progs = [g.prog() for g in gens]
    mobs, errs = model_obs(tag, progs, model_fn, imports)
    ndis = ties = 0
    nontrivial = set()
    stats = {}
    samples = []
    maxdev = {}
    nfail = 0
    for gi, (g, m) in enumerate(zip(gens, mobs)):
        prog = progs[gi]
        for k, v in g.stats.items():
            stats[k] = stats.get(k, 0) + v
        for key in nontrivial_key(prog, g.obs):
            nontrivial.add(key)
        # ---- property oracle on the implementation
        try:
            fails = oracle(prog, g.obs, g.impl)
        except Exception as e:  # noqa
            import traceback
            fails = [(0, 'oracle crashed: ' + traceback.format_exc()[-400:])]
        if fails:
            nfail += 1
            if nfail <= 3:
                small = shrink(prog, oracle)
                sobs, sim = rerun(small)
                sf = oracle(small, sobs, sim) or fails
                chk.violation(sf[0][1], {'program': small, 'failures': [list(x) for x in sf[:5]],
                                         'original_length': len(prog['ops'])})
        # ---- correspondence with the model
        if m is None:
            ndis += 1
            continue
        k = tol_scale(prog)
        d = dsl.compare(g.obs, m, atol=atol * k, rtol=rtol)
        if d and d[0][1].startswith('decision:') and not any(str(k).startswith('boundary:') for k in g.stats) and float_tie(
                prog, d[0][0], lambda p, i: rerun(p)[0][i]['ok'],
                lambda ps, i: [x and x[i]['ok'] for x in model_obs(tag + 'tie', ps, model_fn, imports)[0]]):
            ties += 1
            d = []
        if d:
            ndis += 1
            if not fails and ndis <= 3:
                i = d[0][0]
                chk.violation('model/implementation disagree: ' + d[0][1],
                              {'relation': 'Prog.run ~ implementation', 'program': dict(prog, ops=prog['ops'][:i + 1]),
                               'differences': [t for _, t in d[:5]]}, found_input=False)
        if gi % max(1, len(gens) // 3) == 0 and len(samples) < 3:
            samples.append({'ops': [json.dumps(o)[:160] for o in prog['ops'][:4]], 'n_ops': len(prog['ops']),
                            'impl_last': json.dumps(dsl.jsonable(g.obs[-1]))[:200] if g.obs else None})
    if errs:
        chk.violation('model evaluation failed: ' + errs[0][:300], {'relation': 'coq_eval ' + tag, 'errors': errs[:3]},
                      found_input=False)
    cov = {
        'evaluations': sum(len(p['ops']) for p in progs), 'programs': len(progs),
        'distinct_nontrivial': len(nontrivial), 'rule': rule, 'disagreements_checked': ndis,
        'oracle_failures': nfail, 'samples': samples, 'generator_distribution': stats,
        'history_lengths': {'min': min(len(p['ops']) for p in progs), 'max': max(len(p['ops']) for p in progs)},
        'correspondence_s': round(time.time() - t0, 1), 'float_ties_not_judged': ties,
    }
    if extra_cov:
        cov.update(extra_cov)
    return cov


def replay(path, oracle, model_fn='showRun', imports=IMPORTS):
    r = json.load(open(path))
    prog = r.get('program')
    if not prog:
        print(json.dumps(r, indent=1)[:3000])
        print('no program in this replay file (proof gate / model evaluation break): nothing to run on the implementation')
        return 1
    if r.get('configuration'):
        print('configuration:', r['configuration'])
        obs = run_variant([prog], parse_overrides(r['configuration']), 'replay', factory_density=bool(r.get('factory_density')))[0]
        for i, (op, o) in enumerate(zip(prog['ops'], obs)):
            print(i, json.dumps(op)[:200], '->', 'ok' if o['ok'] else o['exc'] + ': ' + o.get('msg', ''))
        fails = oracle(prog, obs, None)
        ref = r.get('decision_under_shipped_configuration')
        if ref is not None:
            last = obs[len(prog['ops']) - 1]
            if last['ok'] != ref['ok'] or (not last['ok'] and last['exc'] != ref.get('exc')):
                fails = [(len(prog['ops']) - 1, f"decided {'ok' if ref['ok'] else ref.get('exc')} under the shipped configuration, {'ok' if last['ok'] else last['exc']} under this one")] + list(fails)
        for f in fails[:5]:
            print('PROPERTY FAILS at op', f[0], ':', f[1])
        print('property', 'FAILS' if fails else 'HOLDS', 'on this input under this configuration')
        return 1 if fails else 0
    obs, im = rerun(prog)
    for i, (op, o) in enumerate(zip(prog['ops'], obs)):
        print(i, json.dumps(op)[:200], '->', 'ok' if o['ok'] else o['exc'] + ': ' + o.get('msg', ''))
    fails = oracle(prog, obs, im)
    mobs, errs = model_obs('replay', [prog], model_fn, imports)
    if mobs[0] is not None:
        d = dsl.compare(obs, mobs[0], atol=1e-8 * tol_scale(prog), rtol=2e-8)
        print('model/implementation differences:', [t for _, t in d[:5]] or 'none')
    for f in fails[:5]:
        print('PROPERTY FAILS at op', f[0], ':', f[1])
    print('property', 'FAILS' if fails else 'HOLDS', 'on this input')
    return 1 if fails else 0


# ------------------------------------------------------------------ helpers for oracles (exact arithmetic on dumps)
INF = 'inf'


def gper(sd, b):
    """grams per one unit of b (None: the substance has no such measure; INF: infinitely dense, i.e. no volume)"""
    mw, a = F(sd['mw']), F(sd['act'])
    d = None if str(sd['dens']) == 'inf' else F(sd['dens'])
    if sd['kind'] == 'Enzyme':
        return {'g': F(1), 'U': 1 / a, 'L': INF if d is None else 1000 * d / a, 'mol': None}[b]
    return {'g': F(1), 'mol': mw, 'L': INF if d is None else 1000 * d, 'U': None}[b]


def amount_in(sd, stored, b, mol_mult=F(1, 10**6)):
    """stored amount (storage moles, or activity units) of substance sd in base unit b; None-quantities are 0"""
    base = 'U' if sd['kind'] == 'Enzyme' else 'mol'
    x, y = gper(sd, base), gper(sd, b)
    if y is None or y == INF:
        return F(0)
    amt = stored if sd['kind'] == 'Enzyme' else stored * mol_mult
    return amt * x / y


def measure(subs, dump, b, mol_mult=F(1, 10**6)):
    byid = {s['id']: s for s in subs}
    return sum((amount_in(byid[k], a, b, mol_mult) for k, a in dump['cont'].items() if k in byid), F(0))


def containers_of(dump):
    return [dump] if dump['t'] == 'c' else dump['wells']


def before_of(im_dumps, var):
    return im_dumps[var]


def all_dumps(prog, obs):
    """variable -> dump for every value the history produced"""
    d = {}
    for o in obs:
        if o['ok']:
            for v, x in o['out']:
                d[v] = x
    return d


# ------------------------------------------------------------------ the same histories under another configuration (oracle only)
def write_config(d, overrides):
    import yaml
    base = yaml.safe_load(open(os.path.join(common.REPO, 'pyplate', 'pyplate.yaml')))
    base.update(overrides)
    os.makedirs(d, exist_ok=True)
    with open(os.path.join(d, 'pyplate.yaml'), 'w') as f:
        f.write(yaml.safe_dump(base))


def rescale_dump(dump, enz, kv, km):
    for c in containers_of(dump):
        c['vol'] = c['vol'] * kv
        if c.get('max') is not None:
            c['max'] = c['max'] * kv
        c['cont'] = {k: (a if k in enz else a * km) for k, a in c['cont'].items()}


def run_job(progs, rprogs, overrides, tag, factory_density=False, ledger=False):
    """run histories (progs) and recipes (rprogs) in a separate process under pyplate.yaml + overrides; dumps taken under other
    storage units are rescaled to uL / umol so that the oracles read them as usual.  Returns (observations per history,
    [(bake outcome, query results)] per recipe)"""
    import subprocess, shutil
    d = os.path.join(common.BUILD, 'cfg', tag)
    shutil.rmtree(d, ignore_errors=True)
    write_config(d, overrides)
    json.dump({'progs': progs, 'recipes': rprogs, 'factory_density': factory_density, 'ledger': ledger}, open(os.path.join(d, 'job.json'), 'w'))
    env = dict(os.environ, PYPLATE_CONFIG=d)
    p = subprocess.run(['/venv/bin/python', os.path.join(common.VERIF, 'harness', 'cfgworker.py'), os.path.join(d, 'job.json'), os.path.join(d, 'out.json')],
                       env=env, stdout=subprocess.PIPE, stderr=subprocess.STDOUT, text=True, timeout=1200)
    if p.returncode != 0:
        raise RuntimeError('worker failed under %s: %s' % (overrides, p.stdout[-600:]))
    from props import C18
    out = C18.dec(json.load(open(os.path.join(d, 'out.json'))))
    shutil.rmtree(d, ignore_errors=True)
    rec = [(r['bake'], r['queries']) + ((r['ledger'],) if ledger else ()) for r in out['recipes']]
    if 'volume_storage_unit' in overrides or 'moles_storage_unit' in overrides:
        kv = dsl.PFX[overrides.get('volume_storage_unit', 'uL')[:-1]][1] / dsl.PFX['u'][1]
        km = dsl.PFX[overrides.get('moles_storage_unit', 'umol')[:-3]][1] / dsl.PFX['u'][1]
        for prog, obs in zip(progs, out['progs']):
            enz = {s['id'] for s in prog['subs'] if s['kind'] == 'Enzyme'}
            for o in obs:
                if o.get('ok'):
                    for _, dump in o['out']:
                        rescale_dump(dump, enz, kv, km)
        for prog, (bake, *_) in zip(rprogs, rec):
            enz = {s['id'] for s in prog['subs'] if s['kind'] == 'Enzyme'}
            if bake[0] == 'ok':
                for dump in bake[1].values():
                    rescale_dump(dump, enz, kv, km)
    return out['progs'], rec


def run_variant(progs, overrides, tag, factory_density=False):
    return run_job(progs, [], overrides, tag, factory_density)[0]


def parse_overrides(d):
    """the configuration stored in a replay file (values written with str) back to YAML values"""
    out = {}
    for k, v in (d or {}).items():
        try:
            out[k] = float(v)
        except (TypeError, ValueError):
            out[k] = v
    return out


VARIANTS = [('display mL / mmol', {'volume_display_unit': 'mL', 'moles_display_unit': 'mmol'}, None),
            ('storage mL / umol', {'volume_storage_unit': 'mL'}, None),
            ('storage uL / mmol', {'moles_storage_unit': 'mmol'}, None),
            ('default densities 2 g/mL and 50 U/mL', {'default_solid_density': 2.0, 'default_enzyme_density': 50.0}, ('2', '50')),
            ('solids and enzymes without volume (default densities inf)', {'default_solid_density': float('inf'), 'default_enzyme_density': float('inf')}, ('inf', 'inf'))]


def variants(chk, gens, oracle, tag, limit=12):
    """the first histories again under configurations that differ in display units / default densities: the property oracle only
    (the substances are made by the library's factories; the oracle's densities are the configured ones)"""
    n = 0
    for name, overrides, dens in VARIANTS:
        progs, refobs = [], []
        storage = 'volume_storage_unit' in overrides or 'moles_storage_unit' in overrides
        for g in gens[:limit]:
            if storage and getattr(g, 'scale', 1) < 1e-3:
                continue      # nanomole-scale histories have two significant digits left under a coarser storage unit
            prog = json.loads(json.dumps(g.prog() if hasattr(g, 'prog') else g))
            # (exactly-on-boundary requests are decided by the last digit of the stored amounts: not compared across storage units)
            refobs.append(None if storage and any(str(k).startswith('boundary:') for k in getattr(g, 'stats', {})) else getattr(g, 'obs', None))
            if 'volume_storage_unit' in overrides or 'moles_storage_unit' in overrides:
                prog['tol_k'] = 1000.0
            if dens:
                for o_ in prog['ops']:       # what is feasible was decided under the default densities when the history was generated
                    o_.pop('expect', None)
                for sd in prog['subs']:
                    if sd['kind'] == 'Solid':
                        sd['dens'] = dens[0]
                    elif sd['kind'] == 'Enzyme':
                        sd['dens'] = dens[1]
            progs.append(prog)
        try:
            allobs = run_variant(progs, overrides, tag + '_' + str(n), factory_density=bool(dens))
        except Exception as e:  # noqa
            chk.violation(f"histories could not be run under configuration '{name}': {e}", {'relation': 'configuration variant ' + name}, found_input=False)
            continue
        for gi, (prog, obs) in enumerate(zip(progs, allobs)):
            n += len(prog['ops'])
            # display and storage units change no decision: what was accepted / refused (and with which class) when the history was
            # generated under the shipped configuration is accepted / refused now (requests are generated 3 % clear of every boundary)
            ref = refobs[gi]
            if not dens and ref is not None:
                bad = None
                for i, (a, b) in enumerate(zip(ref, obs)):
                    if a['ok'] != b['ok'] or (not a['ok'] and a['exc'] != b['exc']):
                        bad = (i, f"op {i} ({prog['ops'][i]['op']} {json.dumps(prog['ops'][i].get('q', prog['ops'][i].get('c', '')))[:80]}) is "
                                  f"{'accepted' if a['ok'] else 'refused (' + a['exc'] + ')'} under the shipped configuration and "
                                  f"{'accepted' if b['ok'] else 'refused (' + b['exc'] + ': ' + str(b.get('msg', ''))[:60] + ')'} here")
                        break
                if bad and storage and 'q' in prog['ops'][bad[0]]:
                    # a request on a boundary (a fill to exactly the capacity, a draw of exactly what is there) is decided by the last
                    # digit of the stored amounts, which another storage unit rounds elsewhere: if the request moved by one part in a
                    # million towards the decision taken under the shipped configuration is decided that way here, it is a tie
                    from decimal import Decimal
                    p2 = json.loads(json.dumps(dict(prog, ops=prog['ops'][:bad[0] + 1])))
                    q2 = p2['ops'][bad[0]]['q']
                    q2['v'] = format(Decimal(q2['v'].lstrip('+')) * (Decimal('0.999999') if ref[bad[0]]['ok'] else Decimal('1.000001')), 'f')
                    try:
                        o2 = run_variant([p2], overrides, tag + '_tie', factory_density=False)[0]
                        if o2[bad[0]]['ok'] == ref[bad[0]]['ok']:
                            bad = None
                    except Exception:  # noqa
                        pass
                if bad:
                    chk.violation(f"under configuration '{name}': " + bad[1],
                                  {'program': dict(prog, ops=prog['ops'][:bad[0] + 1]), 'configuration': {k: str(v) for k, v in overrides.items()},
                                   'decision_under_shipped_configuration': {k: v for k, v in ref[bad[0]].items() if k != 'out'}, 'failures': [list(bad)]})
                    break
            try:
                fails = oracle(prog, obs, None)
            except Exception:  # noqa
                import traceback
                fails = [(0, 'oracle crashed under a configuration variant: ' + traceback.format_exc()[-300:])]
            if fails:
                chk.violation(f"under configuration '{name}': " + fails[0][1],
                              {'program': prog, 'configuration': {k: str(v) for k, v in overrides.items()}, 'factory_density': bool(dens),
                               'failures': [list(x) for x in fails[:5]]})
                break
    return n
