"""C10 -- reported volume, amounts and concentrations agree with contents.  Oracle: after every operation the cached volume equals the sum of the contents' volumes; get_volume, get_concentration (13 unit spellings), Plate.get_volumes / get_moles / get_substances are recomputed from contents with exact fractions."""
import random
import common, dsl, gen, histcheck, oracles
from props import C01 as base

RULE = 'non-trivial = a returned container/well with >= 2 substances whose observers were all recomputed; distinct by (operation kind, number of substances, kinds present)'
WEIGHTS = {'newc': 1, 'newp': 0.4, 'cc': 4, 'cp': 3, 'pc': 3, 'pp': 4, 'remove': 1, 'fill': 1, 'bad': 1}


def make_cases(chk):
    dsl.OBSERVE_EACH = True     # the observers are called on every value as soon as it exists, not only afterwards
    n = 40 if chk.tier == 'quick' else 400
    hi = 12 if chk.tier == 'quick' else 16     # the model's exact rationals grow with the length of a history: more histories, not longer ones
    gens = []
    for i in range(n):
        rng = random.Random(chk.seed * 100003 + 50000 + i)
        g = gen.history(rng, rng.randint(6, hi), weights=WEIGHTS, trace=(i % 6 == 5))
        if i % 3 == 0:
            from props import C11
            for _ in range(3):       # dilutions, some of the same undiluted value, some through the name= path
                C11.add_dilute(g, rng, keep=0.6)
        gens.append(g)
    return gens


def nontrivial(prog, obs):
    ks = {s['id']: s['kind'][0] for s in prog['subs']}
    return [(op['op'], len(c['cont']), ''.join(sorted({ks.get(k, '?') for k in c['cont']}))) for op, o in zip(prog['ops'], obs) if o['ok'] for _, d in o['out'] for c in histcheck.containers_of(d) if len(c['cont']) >= 2]


def run(chk, gate, status):
    gens = make_cases(chk)
    chk.assumptions += ['observers rounded to display precision are compared within half a unit of the last displayed digit']
    cov = histcheck.run(chk, gens, oracles.c10, 'C10', RULE, nontrivial)
    for msg in oracles.wv_runtime_probe()[:2]:
        cov['oracle_failures'] += 1
        chk.violation(msg, {'kind': 'wv-runtime'})
    # under other configurations (separate processes): the cached volume against the contents, from the dumps
    cov['operations_under_configuration_variants'] = histcheck.variants(chk, gens, oracles.c10, 'C10v', limit=10 if chk.tier == 'quick' else 60)
    return cov


def replay(path):
    import json as _json
    if _json.load(open(path)).get('kind') == 'wv-runtime':
        f = oracles.wv_runtime_probe()
        for m in f:
            print('PROPERTY FAILS:', m)
        print('property', 'FAILS' if f else 'HOLDS', 'on this input')
        return 1 if f else 0
    dsl.OBSERVE_EACH = True
    return histcheck.replay(path, oracles.c10)
