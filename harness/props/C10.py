"""C10 -- reported volume, amounts and concentrations agree with contents.  Oracle: after every operation the cached volume equals the sum of the contents' volumes; get_volume, get_concentration (13 unit spellings), Plate.get_volumes / get_moles / get_substances are recomputed from contents with exact fractions."""
import random
import common, dsl, gen, histcheck, oracles
from props import C01 as base

RULE = 'non-trivial = a returned container/well with >= 2 substances whose observers were all recomputed; distinct by (operation kind, number of substances, kinds present)'
WEIGHTS = {'newc': 1, 'newp': 0.4, 'cc': 4, 'cp': 3, 'pc': 3, 'pp': 4, 'remove': 1, 'fill': 1, 'bad': 1}


def make_cases(chk):
    dsl.OBSERVE_EACH = True     # the observers are called on every value as soon as it exists, not only afterwards
    n = 40 if chk.tier == 'quick' else 400
    hi = 12 if chk.tier == 'quick' else 16     # the model's exact rationals grow with the length of a history: more histories, not longer ones
    gens = []
    for i in range(n):
        rng = random.Random(chk.seed * 100003 + 50000 + i)
        g = gen.history(rng, rng.randint(6, hi), weights=WEIGHTS, trace=(i % 6 == 5))
        if i % 3 == 0:
            from props import C11
            for _ in range(3):       # dilutions, some of the same undiluted value, some through the name= path
                C11.add_dilute(g, rng, keep=0.6)
        gens.append(g)
    return gens


def nontrivial(prog, obs):
    ks = {s['id']: s['kind'][0] for s in prog['subs']}
    return [(op['op'], len(c['cont']), ''.join(sorted({ks.get(k, '?') for k in c['cont']}))) for op, o in zip(prog['ops'], obs) if o['ok'] for _, d in o['out'] for c in histcheck.containers_of(d) if len(c['cont']) >= 2]


def plate_observer_tie(chk, gens):
    """the model's own array read-outs (PlateObs.v: plate_volumes, plate_get_volume, slice_volumes -- the definitions the plate
    theorems are about) evaluated inside Coq on the same histories and compared with Plate.get_volumes / Plate.get_volume /
    plate[1, :].get_volumes of the objects the implementation produced"""
    import numpy
    from fractions import Fraction as F
    from pyplate import Plate
    sel = [g for g in gens if any(isinstance(o, Plate) for o in g.impl.env.values())]
    sel = sel[:12 if chk.tier == 'quick' else 120]
    progs = [g.prog() for g in sel]
    terms = [dsl.to_coq(p, 'showRunPlateObs') for p in progs]
    res, errs = common.coq_eval('C10obs', histcheck.IMPORTS + ' PlateObs', terms, chunk=4)
    if errs:
        chk.violation('model evaluation failed: ' + errs[0][:300], {'relation': 'coq_eval C10obs', 'errors': errs[:3]}, found_input=False)
    plates = entries = bad = 0
    for g, prog, r in zip(sel, progs, res):
        if r is None:
            continue
        k = F(histcheck.tol_scale(prog))
        rd = common.Reader(r)
        diffs = []
        while not rd.done():
            v = rd.int()
            n = rd.int()
            ul = [rd.q() for _ in range(n)]
            ml = [rd.q() for _ in range(n)]
            tot = rd.q()
            nc = rd.int()
            row = [rd.q() for _ in range(nc)]
            o = g.impl.env.get(v)
            if not isinstance(o, Plate):
                continue        # the implementation refused where the model accepted: reported by the correspondence of the histories
            plates += 1
            for name, got, exp, tol in (
                    ("get_volumes(unit='uL')", numpy.asarray(o.get_volumes(unit='uL')).flatten(), ul, F(1, 2) + F(1, 10**6) * k),
                    ("get_volumes(unit='mL')", numpy.asarray(o.get_volumes(unit='mL')).flatten(), ml, F(51, 100000) + F(1, 10**9) * k),
                    ("get_volume('mL')", [o.get_volume('mL')], [tot], F(51, 100000) * n + F(1, 10**9) * k),
                    ("[1, :].get_volumes(unit='mL')", numpy.asarray(o[1, :].get_volumes(unit='mL')).flatten(), row, F(51, 100000) + F(1, 10**9) * k)):
                if len(got) != len(exp):
                    diffs.append(f"object {v}: {name} has {len(got)} entries, the model's array {len(exp)}")
                    continue
                for j, (x, y) in enumerate(zip(got, exp)):
                    entries += 1
                    if abs(F(float(x)) - y) > tol + abs(y) * F(1, 10**8):
                        diffs.append(f"object {v}: {name} entry {j} is {float(x)!r}, the model's array says {float(y)!r}")
        if diffs:
            bad += 1
            if bad <= 2:
                chk.violation('model/implementation disagree: ' + diffs[0],
                              {'relation': 'PlateObs.showRunPlateObs ~ Plate.get_volumes / get_volume', 'program': prog, 'differences': diffs[:5]},
                              found_input=False)
    return {'programs': len(sel), 'plates_read': plates, 'array_entries_compared': entries, 'programs_disagreeing': bad}


def run(chk, gate, status):
    gens = make_cases(chk)
    chk.assumptions += ['observers rounded to display precision are compared within half a unit of the last displayed digit']
    cov = histcheck.run(chk, gens, oracles.c10, 'C10', RULE, nontrivial)
    cov['plate_observer_tie'] = plate_observer_tie(chk, gens)
    for msg in oracles.wv_runtime_probe()[:2]:
        cov['oracle_failures'] += 1
        chk.violation(msg, {'kind': 'wv-runtime'})
    # under other configurations (separate processes): the cached volume against the contents, from the dumps
    cov['operations_under_configuration_variants'] = histcheck.variants(chk, gens, oracles.c10, 'C10v', limit=10 if chk.tier == 'quick' else 60)
    return cov


def replay(path):
    import json as _json
    if _json.load(open(path)).get('kind') == 'wv-runtime':
        f = oracles.wv_runtime_probe()
        for m in f:
            print('PROPERTY FAILS:', m)
        print('property', 'FAILS' if f else 'HOLDS', 'on this input')
        return 1 if f else 0
    dsl.OBSERVE_EACH = True
    return histcheck.replay(path, oracles.c10)
