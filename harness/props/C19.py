"""C19 -- instructions and human-readable quantities state the true amounts.
Tie: correspondence of the two rescaling helpers (Unit.get_human_readable_unit, convert_from_storage_to_standard_format)
with Instr.v over magnitudes 1e-12 .. 1e3 by half-decades x incoming prefixes x substance kinds.
Oracle: (a) value x SI factor of the returned prefix equals the amount put in; (b) the instruction texts of containers
and of baked recipe steps are parsed back into (amount, unit, name) and compared with the actual contents / deltas to the
displayed precision (this part is testing of the implementation, no model involved)."""
import json, random, re
from fractions import Fraction as F
from decimal import Decimal
import common, dsl, gen, histcheck, recipes, oracles
from common import qstr

RULE = ('complete enumeration of magnitudes x prefixes x kinds for the rescaling helpers; instruction lines of generated histories and '
        'recipes; non-trivial = a non-zero amount rescaled, or an instruction line with a parsed amount; distinct by (helper, magnitude, prefix, kind) / line')
SI = dsl.PFX
PCODE = {1: 'n', 2: 'u', 3: 'µ', 4: 'm', 5: 'c', 6: 'd', 7: '', 8: 'da', 9: 'k', 10: 'M'}
PREC = {'uL': 0, 'umol': 1, 'mg': 1}


def magnitudes(full):
    out = []
    for e in range(-12, 4):
        for m in (['1', '3.16', '5', '9.99'] if full else ['1', '3.16']):
            out.append(F(Decimal(m)) * F(10) ** e)
    return out + [F(0), F(-25, 10), F(1), F(999999, 10**6), F(1000), F(1, 10**6), F(999, 10**9)]


def split_unit(u):
    for b in ('mol', 'L', 'g', 'U'):
        if u.endswith(b):
            return u[:-len(b)], b
    raise ValueError(u)


# ----------------------------------------------------------------------------- instruction text
AMOUNT = r"(-?\d+(?:\.\d+)?(?:e-?\d+)?)\s+([a-zA-Zµ]*?(?:mol|L|g|U))\b"


def parse_amounts(line):
    return [(F(Decimal(v)), u) for v, u in re.findall(AMOUNT, line)]


def check_amount(stated, unit, true_base, what, fails, i):
    """stated value in `unit` vs the true amount in the base unit of `unit`, to the displayed precision"""
    p, b = split_unit(unit)
    true_u = true_base / SI[p][1]
    prec = PREC.get(unit, 3)
    if abs(stated - true_u) > F(10) ** (-prec) * F(51, 100) + abs(true_u) * F(1, 10**6):
        fails.append((i, f"instruction states {float(stated)} {unit} for {what}, the actual amount is {float(true_u)!r} {unit}"))


def table_oracle(prog, obs):
    """the table a container shows of itself (every container is displayed as soon as it exists, so a container derived from a displayed
    one is displayed too): each cell states the amount the container holds, to the displayed precision"""
    fails = []
    byid = {s['id']: s for s in prog['subs']}
    prec = {'uL': 0, 'umol': 1, 'mg': 1}
    for i, (op, o) in enumerate(zip(prog['ops'], obs)):
        if not o['ok']:
            continue
        for v, d in o['out']:
            tb = d.get('table')
            if not tb:
                continue
            if 'error' in tb:
                continue        # (a table that cannot be shown states nothing; not this property's subject)
            prec = tb.get('__precisions__') or prec
            for key, cells in tb.items():
                if key in ('Total', '__precisions__') or key not in byid or key not in d['cont']:
                    continue
                for cell in cells:
                    # a cell is read by what it says (a number and a unit), not by the column it stands in
                    if cell == '-' or cell.count(' ') != 1:
                        continue
                    val, unit = cell.split(' ')
                    base = next((b for b in ('mol', 'U', 'L', 'g') if unit.endswith(b) and unit[:-len(b)] in dsl.PFX), None)
                    try:
                        shown = F(val)
                    except ValueError:
                        continue
                    if base is None:
                        continue
                    pfx = unit[:-len(base)]
                    true = histcheck.amount_in(byid[key], d['cont'][key], base)
                    shown = shown * dsl.PFX[pfx][1]
                    if abs(shown - true) > F(51, 100) * F(10) ** (-prec.get(unit, prec.get('default', 3))) * dsl.PFX[pfx][1] + abs(true) * F(1, 10**9):
                        fails.append((i, f"the table of the container returned by {op['op']} (variable {v}) shows {cell} for substance {key}, "
                                         f"the container holds {float(true)!r} {base}"))
            if any(k not in ('Total', '__precisions__') and k not in d['cont'] for k in tb):
                fails.append((i, f"the table of the container returned by {op['op']} lists a substance the container does not hold"))
            if any(k not in tb for k in d['cont'] if k in byid) and len(set(s['name'] for s in prog['subs'])) == len(prog['subs']):
                fails.append((i, f"the table of the container returned by {op['op']} (variable {v}) omits a substance the container holds"))
    return fails


def instr_oracle(prog, obs, impl):
    fails = []
    subs = prog['subs']
    byid = {s['id']: s for s in subs}
    class _ByName(dict):
        """instruction lines name substances; with namesakes in play the part is matched to the namesake whose unit and amount fit"""
    byname = {}
    for s in subs:
        byname.setdefault(s['name'], []).append(s)

    def pick(name, unit, stated, amount_of):
        cands = byname[name]
        if len(cands) == 1:
            return cands[0]
        b = split_unit(unit)[1]
        fit = [s for s in cands if {'Solid': 'g', 'Liquid': 'L', 'Enzyme': 'U'}[s['kind']] == b] or cands
        return min(fit, key=lambda s: abs(amount_of(s, b) / SI[split_unit(unit)[0]][1] - stated))
    for i, op, o, dumps in oracles.walk(prog, obs):
        if not o['ok']:
            continue
        out = dict(o['out'])
        try:
            def named_amounts(line, names):
                """every "<number> <unit> of <name>" in the text, whatever the wording around it: [(value, unit, name)]"""
                alt = "|".join(re.escape(n) for n in sorted(set(names), key=len, reverse=True))
                return [(F(Decimal(m.group(1))), m.group(2), m.group(3)) for m in re.finditer(AMOUNT + r" of (" + alt + r")(?![A-Za-z0-9])", line)] if alt else []

            def check_parts(line, parts, true_of, what):
                for v, u, name in parts:
                    sd = pick(name, u, v, true_of)
                    b = {'Solid': 'g', 'Liquid': 'L', 'Enzyme': 'U'}[sd['kind']]
                    if split_unit(u)[1] != b:
                        fails.append((i, f"{line!r}: unit {u} for the {sd['kind'].lower()} {name}"))
                    else:
                        check_amount(v, u, true_of(sd, b), f"{name} {what}", fails, i)
            if op['op'] == 'solutionc':
                # the line names each solute with its amount and the solvent container with the volume taken from it (whatever the wording):
                # the volume the container loses, and what each named solute gained beyond the share that came with that volume
                new, s0, s1 = out[op['out']], dumps[op['solventv']], out[op['osolv']]
                line = new['instr']
                taken = (s0['vol'] - s1['vol']) * F(1, 10**6)
                vol = named_amounts(line, [s0['name']]) or [(v, u, None) for v, u in parse_amounts(line)[-1:] if split_unit(u)[1] == 'L']
                if vol:
                    v, u, _ = vol[-1]
                    if split_unit(u)[1] != 'L':
                        fails.append((i, f"{line!r}: the solvent is stated in {u}"))
                    else:
                        check_amount(v, u, taken, "the volume taken from the solvent container by create_solution", fails, i)
                check_parts(line, named_amounts(line, [byid[s]['name'] for s in op['solutes']]),
                            lambda s, b: histcheck.amount_in(s, new['cont'].get(s['id'], F(0)) - (s0['cont'].get(s['id'], F(0)) - s1['cont'].get(s['id'], F(0))), b),
                            "added by create_solution")
            if (op['op'] == 'newc' and op.get('init')) or op['op'] == 'solution':
                d = out[op['out']]
                line = d['instr']
                parts = named_amounts(line, [s['name'] for s in subs])
                held = [s for s, a in d['cont'].items() if a > 0]
                if parts and len(parts) != len(held):
                    fails.append((i, f"the new container holds {len(held)} substances, its instruction names {len(parts)}: {line!r}"))
                check_parts(line, parts, lambda s, b: histcheck.amount_in(s, d['cont'].get(s['id'], F(0)), b), "in a new container")
            if op['op'] == 'transfer' and 'c' in op['src'] and 'c' in op['dst']:
                line = out[op['odst']]['instr'].splitlines()[-1]
                am = parse_amounts(line)
                s0, s1 = dumps[op['src']['c']], out[op['osrc']]
                if am:
                    v, u = am[0]
                    b = split_unit(u)[1]
                    true = histcheck.measure(subs, s0, b) - histcheck.measure(subs, s1, b)
                    check_amount(v, u, true, "the transferred aliquot (" + ('volume' if b == 'L' else 'mass') + ")", fails, i)
                else:
                    fails.append((i, f"no amount in the transfer instruction {line!r}"))
            if op['op'] in ('fill', 'dilute') and ('v' in op or 'c' in op.get('t', {})):
                var = op['v'] if op['op'] == 'dilute' else op['t']['c']
                before, after = dumps[var], out[op['out']]
                if before['cont'] != after['cont']:
                    line = after['instr'].splitlines()[-1]
                    am = parse_amounts(line)
                    sd = byid[op['solvent']]
                    added = after['cont'].get(sd['id'], F(0)) - before['cont'].get(sd['id'], F(0))
                    true = histcheck.amount_in(sd, added, 'L')
                    if am:
                        check_amount(am[0][0], am[0][1], true, f"the {sd['name']} added by {op['op']}", fails, i)
                    else:
                        fails.append((i, f"no amount in {line!r}"))
            if op['op'] == 'solfrom':
                line = out[op['out']]['instr']
                am = parse_amounts(line)
                s0, s1 = dumps[op['src']], out[op['osrc']]
                n1 = out[op['out']]
                if len(am) >= 2:
                    moved = (s0['vol'] - s1['vol']) * F(1, 10**6)
                    check_amount(am[1][0], am[1][1], moved, "the stock used by create_solution_from", fails, i)
                    sd = byid[op['solvent']]
                    check_amount(am[0][0], am[0][1], n1['vol'] * F(1, 10**6) - moved, f"the {sd['name']} added by create_solution_from", fails, i)
        except Exception as e:  # noqa
            fails.append((i, f"instruction oracle crashed: {type(e).__name__}: {e}"))
    return fails


BASES = {1: 'U', 2: 'L', 3: 'g', 4: 'mol'}


def stated_amounts(prog, obs, impl):
    """per operation: the (value, unit) the implementation's instruction line states, for the lines the model covers"""
    out = []
    for i, op, o, dumps in oracles.walk(prog, obs):
        a = None
        if o['ok']:
            try:
                if op['op'] == 'transfer' and 'c' in op['src'] and 'c' in op['dst']:
                    am = parse_amounts(impl.env[op['odst']].instructions.splitlines()[-1])
                    a = am[0] if am else None
                elif op['op'] == 'fill' and 'c' in op['t']:
                    if dumps[op['t']['c']]['cont'] != dict(o['out'])[op['out']]['cont'] or True:
                        am = parse_amounts(impl.env[op['out']].instructions.splitlines()[-1])
                        a = am[0] if am else None
                elif op['op'] == 'solutionc':
                    mm = re.match(r"Add (.*) to " + AMOUNT + r" of .+\.$", impl.env[op['out']].instructions)
                    a = (F(Decimal(mm.group(2))), mm.group(3)) if mm else None
                elif op['op'] == 'dilute':
                    if dumps[op['v']]['cont'] != dict(o['out'])[op['out']]['cont']:
                        am = parse_amounts(impl.env[op['out']].instructions.splitlines()[-1])
                        a = am[0] if am else None
            except Exception:  # noqa
                a = None
        out.append(a)
    return out


def decode_instr(ints, nops):
    r = common.Reader(ints)
    res = []
    for _ in range(nops):
        if r.int() == 0:
            res.append(None)
        else:
            b, p = r.int(), r.int()
            res.append((r.q(), PCODE[p].replace('µ', 'u') + BASES[b]))
    assert r.done()
    return res


def instr_compare(prog, obs, impl, model):
    """differences between the stated amounts of the implementation and the model's (display precision)"""
    diffs = []
    for i, (a, m, o) in enumerate(zip(stated_amounts(prog, obs, impl), model, obs)):
        if a is None or m is None or not o['ok']:
            continue
        v, u = a
        mv, mu = m
        if mv == 0:
            continue
        if u.replace('µ', 'u') != mu:
            # another prefix (e.g. the library rounds a sub-nanolitre volume to ten decimals of a litre before choosing the prefix and
            # prints '0.0 L'): compare the amounts themselves, to the display precision of the unit the model chose
            pu, bu = split_unit(u)
            pm_, bm = split_unit(mu)
            tol = F(10) ** (-PREC.get(mu, 3)) * F(51, 100) * SI[pm_][1] + abs(mv * SI[pm_][1]) * F(1, 10**6)
            if bu != bm or abs(v * SI[pu][1] - mv * SI[pm_][1]) > tol:
                diffs.append((i, f"instruction of op {i} states {float(v)} {u}, the model {float(mv)} {mu}"))
            continue
        prec = PREC.get(u, 3)
        if abs(v - mv) > F(10) ** (-prec) * F(51, 100) + abs(mv) * F(1, 10**6):
            diffs.append((i, f"instruction of op {i} states {float(v)} {u}, the model {float(mv)!r} {mu}"))
    return diffs


def recipe_instr_oracle(prog, rg, out, rec):
    """baked fill_to / dilute steps on containers: 'by adding X unit' equals the solvent actually added by that step"""
    fails = []
    if out[0] != 'ok' or rg.failed is not None:
        return fails
    byid = {s['id']: s for s in prog['subs']}
    H = rg.eager.history
    for k, (st, step) in enumerate(zip(prog['steps'], rec.steps)):
        if st['op'] in ('fill', 'dilute') and (st['op'] == 'dilute' or 'c' in st['t']):
            name = st['name'] if st['op'] == 'dilute' else st['t']['c']
            # the amount added is the last "<number> <unit>" of the step's text (the target comes before it), whatever the wording
            am_ = list(re.finditer(AMOUNT, step.instructions))
            if not am_:
                continue
            m = am_[-1]
            sd = byid[st['solvent']]
            before = recipes.ledger_state(rg.initial, H, k - 1, name)
            after = recipes.ledger_state(rg.initial, H, k, name)
            added = recipes.amount(after, sd['id']) - recipes.amount(before, sd['id'])
            true = histcheck.amount_in(sd, added, 'L')
            tmp = []
            check_amount(F(Decimal(m.group(1))), m.group(2), true, f"the {sd['name']} added by recipe step {k} ({st['op']})", tmp, k)
            fails += [t for _, t in tmp]
        if st['op'] == 'fill' and 'p' in st['t']:
            # "... by adding: 70.0 uL to [A1:A3], 90.0 uL to [B1], ...": every well's own amount, each well listed once
            name = st['t']['p']
            sd = byid[st['solvent']]
            before = recipes.ledger_state(rg.initial, H, k - 1, name)
            after = recipes.ledger_state(rg.initial, H, k, name)
            nc = after['cols']
            stated = {}
            for m in re.finditer(AMOUNT + r"\s+\w+\s+\[([^\]]*)\]", step.instructions):     # "<amount> to [wells]", whatever the preposition
                v, u = F(Decimal(m.group(1))), m.group(2)
                for item in m.group(3).split(', '):
                    ends = [re.match(r"([A-Z])(\d+)$", x) for x in item.split(':')]
                    if not all(ends):
                        fails.append(f"step {k}: cannot read the wells {item!r} in {step.instructions!r}")
                        continue
                    (r0, c0), (r1, c1) = [(ord(e.group(1)) - 65, int(e.group(2)) - 1) for e in (ends[0], ends[-1])]
                    cells = [(r0, c) for c in range(c0, c1 + 1)] if r0 == r1 else [(r, c0) for r in range(r0, r1 + 1)] if c0 == c1 else None
                    if cells is None:
                        fails.append(f"step {k}: {item!r} is neither a run along a row nor down a column")
                        continue
                    for cell in cells:
                        stated.setdefault(cell, []).append((v, u))
            for j, (wb, wa) in enumerate(zip(before['wells'], after['wells'])):
                cell = (j // nc, j % nc)
                true = histcheck.amount_in(sd, wa['cont'].get(sd['id'], F(0)) - wb['cont'].get(sd['id'], F(0)), 'L')
                got = stated.get(cell, [])
                if len(got) > 1:
                    fails.append(f"step {k}: well {cell} is listed {len(got)} times with amounts {[(float(v), u) for v, u in got]} in {step.instructions[:160]!r}")
                elif got:
                    tmp = []
                    check_amount(got[0][0], got[0][1], true, f"the {sd['name']} added to well {cell} by recipe step {k} (fill_to on a plate)", tmp, k)
                    fails += [x for _, x in tmp]
                elif true * 10**6 > F(1):        # more than a microlitre was added and the line does not mention the well
                    fails.append(f"step {k}: {float(true * 10**6)!r} uL were added to well {cell}, which the instruction does not list: {step.instructions[:160]!r}")
    return fails


def run(chk, gate, status):
    from pyplate import Unit, Substance
    full = chk.tier == 'thorough'
    mags = magnitudes(full)
    prefixes = ['n', 'u', 'm', 'c', '', 'k'] if not full else list(SI)
    # ---------------- the two helpers against the model
    cases, terms = [], []
    for v in mags:
        for p in prefixes:
            for b in ('L', 'g', 'mol', 'U'):
                cases.append(('hr', v, p, b))
                terms.append(f"showHR (human_readable {qstr(v)} {SI[p][0]})")
    kinds = [s for s in dsl.LIBRARY if s['id'] in (1, 2, 4, 8, 6, 9)]
    for v in mags:
        if v < 0:
            continue
        for sd in kinds:
            cases.append(('sf', v, sd))
            terms.append(f"showSF (standard_format default_cfg {dsl.coq_subst(sd)} {qstr(v)})")
    model, errors = common.coq_eval('C19', 'Base Units Contents Container Instr', terms, chunk=1500)
    ndis = nfail = 0
    nontrivial = set()
    samples = []
    impl_subs = {sd['id']: dsl.make_substance(sd) for sd in kinds}
    for idx, (c, m) in enumerate(zip(cases, model)):
        if c[0] == 'hr':
            _, v, p, b = c
            got_v, got_u = Unit.get_human_readable_unit(float(v), p + b)
            gp, gb = split_unit(got_u) if v != 0 else (p, b)
            true = abs(v) * SI[p][1]
            ok = gb == b and abs(F(got_v) * SI[gp][1] - true) <= true * F(1, 10**12) and (v == 0 or got_v >= 1 - 1e-12 or gp in ('u', 'µ'))
            if not ok:
                nfail += 1
                if nfail <= 3:
                    chk.violation(f"get_human_readable_unit({float(v)!r}, {p + b!r}) = ({got_v!r}, {got_u!r}): denotes {float(F(got_v) * SI[gp][1])!r} {b}, "
                                  f"the input denotes {float(true)!r} {b}", {'helper': 'human_readable', 'value': str(v), 'unit': p + b})
            agree = m is not None and PCODE[m[0]].replace('µ', 'u') == gp.replace('µ', 'u') and abs(F(got_v) - F(m[1], m[2])) <= abs(F(m[1], m[2])) * F(1, 10**12)
            if v != 0:
                nontrivial.add(('hr', str(v), p, b))
        else:
            _, v, sd = c
            got_v, got_u = Unit.convert_from_storage_to_standard_format(impl_subs[sd['id']], float(v))
            gp, gb = split_unit(got_u)
            b = {'Solid': 'g', 'Liquid': 'L', 'Enzyme': 'U'}[sd['kind']]
            true = histcheck.amount_in(sd, v, b)
            ok = gb == b and abs(F(got_v) * SI[gp][1] - true) <= true * F(1, 10**9) + F(6, 10**11) * SI[gp][1]
            if not ok:
                nfail += 1
                if nfail <= 3:
                    chk.violation(f"convert_from_storage_to_standard_format({sd['name']}, {float(v)!r}) = ({got_v!r}, {got_u!r}): denotes "
                                  f"{float(F(got_v) * SI[gp][1])!r} {b}, the stored amount is {float(true)!r} {b}", {'helper': 'standard_format', 'value': str(v), 'substance': sd})
            agree = m is not None and PCODE[m[0]] == gp and abs(F(got_v) - F(m[1], m[2])) <= abs(F(m[1], m[2])) * F(1, 10**9) + F(6, 10**11)
            if v != 0:
                nontrivial.add(('sf', str(v), sd['id']))
        if not agree:
            ndis += 1
            if ndis <= 3 and ok:
                chk.violation(f"model/implementation disagree on {c[0]} {str(c[1:])[:120]}: impl {(got_v, got_u)} model {m}",
                              {'relation': 'Instr ~ Unit rescaling helpers', 'case': str(c)[:200]}, found_input=False)
        if idx % 401 == 0 and len(samples) < 4:
            samples.append({'case': str(c)[:100], 'impl': str((got_v, got_u)), 'model': m})
    # ---------------- instruction texts of histories (all magnitudes: ordinary and trace scale) and recipes
    nlines = 0
    n = 40 if not full else 300
    hist = []
    for i in range(n):
        rng = random.Random(chk.seed * 100003 + 190000 + i)
        dsl.TABLES = True
        try:
            g = gen.history(rng, rng.randint(5, 10), with_plates=False, trace=(i % 3 == 2),
                            weights={'newc': 2, 'cc': 5, 'remove': 0.5, 'fill': 2, 'bad': 0.3})
            from props import C11, C12
            for _ in range(2):
                C11.add_dilute(g, rng)
        finally:
            dsl.TABLES = False
        f = instr_oracle(g.prog(), g.obs, g.impl) + table_oracle(g.prog(), g.obs)
        hist.append((g, bool(f)))
        nlines += sum(1 for o in g.obs if o['ok'])
        if f:
            nfail += 1
            if nfail <= 3:
                both = lambda p, o, im: instr_oracle(p, o, im) + table_oracle(p, o)
                dsl.TABLES = True
                try:
                    small = histcheck.shrink(g.prog(), both)
                    sobs, sim = histcheck.rerun(small)
                    sf = both(small, sobs, sim) or f
                finally:
                    dsl.TABLES = False
                chk.violation(sf[0][1], {'program': small, 'failures': [list(x) for x in sf[:5]]})
    # the same histories under other display / storage units and default densities (separate processes): the texts are read from the dumps
    histcheck.variants(chk, [g for g, _ in hist], instr_oracle, 'C19v', limit=10 if not full else 60)
    from props import C12 as C12m
    import copy
    sub = copy.copy(chk); sub.tier = 'quick'
    for g in C12m.make_cases(sub)[:(15 if not full else 60)]:
        f = instr_oracle(g.prog(), g.obs, g.impl)
        nlines += sum(1 for o in g.obs if o['ok'])
        if f:
            nfail += 1
            if nfail <= 3:
                chk.violation(f[0][1], {'program': g.prog(), 'failures': [list(x) for x in f[:5]]})
    from props import C05 as C05m
    for g in C05m.make_cases(sub)[:(30 if not full else 70)]:      # create_solution with a substance or a container as the solvent
        f = instr_oracle(g.prog(), g.obs, g.impl)
        if any(op['op'] == 'solutionc' and o['ok'] for op, o in zip(g.ops, g.obs)):
            hist.append((g, bool(f)))       # the stated solvent volume is compared with the model's as well (InstrSol.v)
        nlines += sum(1 for o in g.obs if o['ok'])
        if f:
            nfail += 1
            if nfail <= 3:
                chk.violation(f[0][1], {'program': g.prog(), 'failures': [list(x) for x in f[:5]]})
    for i in range(25 if not full else 150):
        rng = random.Random(chk.seed * 100003 + 191000 + i)
        rg = recipes.RecipeGen(rng, rng.randint(3, 9))
        prog = rg.prog([])
        out, rec, handles, helper, initial = recipes.run_recipe(prog)
        f = recipe_instr_oracle(prog, rg, out, rec)
        nlines += len(prog['steps'])
        if f:
            nfail += 1
            if nfail <= 3:
                chk.violation(f[0], {'recipe': prog, 'failures': f[:5]})
    # the instruction amounts of the same histories on the model (Instr2.v)
    iterms = [dsl.to_coq(g.prog(), fn='showInstrRun2') for g, _ in hist]
    imodel, ierrors = common.coq_eval('C19i', 'Base Units Contents Container Dilute Solve Plate Prog Instr Instr2 InstrSol', iterms, chunk=6)
    ninstr = 0
    for (g, failed), m in zip(hist, imodel):
        if m is None:
            ndis += 1
            continue
        try:
            dm = decode_instr(m, len(g.ops))
            d = instr_compare(g.prog(), g.obs, g.impl, dm)
            ninstr += sum(1 for x in dm if x is not None)
        except Exception as e:  # noqa
            d = [(0, f"cannot decode the model's instruction amounts: {type(e).__name__} {e}")]
        if d:
            ndis += 1
            if not failed and ndis <= 3:
                chk.violation('model/implementation disagree: ' + d[0][1],
                              {'relation': 'InstrSol.showInstrRun2 ~ instruction lines', 'program': dict(g.prog(), ops=g.ops[:d[0][0] + 1]),
                               'differences': [t for _, t in d[:4]]}, found_input=False)
    errors = errors + ierrors
    if errors:
        chk.violation('model evaluation failed: ' + errors[0][:300], {'relation': 'coq_eval C19'}, found_input=False)
    chk.assumptions += ["the instruction texts are parsed back with a small grammar (number unit [of name]); Python's float formatting is glue",
                        "stated amounts are compared with the actual ones to the displayed precision (config.precisions) plus 1e-6 relative"]
    return {'evaluations': len(cases) + nlines + ninstr, 'programs': len(cases), 'instruction_lines_checked': nlines, 'instruction_amounts_compared_with_model': ninstr,
            'distinct_nontrivial': len(nontrivial), 'rule': RULE, 'exhaustive': True,
            'exhaustive_bound': 'magnitudes 1e-12 .. 9.99e3 by ' + ('quarter' if full else 'half') + '-decades x ' + str(len(prefixes)) + ' incoming prefixes x 4 base units; 6 substances',
            'disagreements_checked': ndis, 'oracle_failures': nfail, 'samples': samples}


def replay(path):
    r = json.load(open(path))
    print(json.dumps({k: v for k, v in r.items() if k not in ('program', 'recipe')}, indent=1)[:1500])
    if 'program' in r:
        dsl.TABLES = True      # every container is displayed as soon as it exists, as in the check
        return histcheck.replay(path, lambda p, o, im: instr_oracle(p, o, im) + table_oracle(p, o))
    if 'recipe' in r:
        prog = r['recipe']
        rg = recipes.Replayed(prog)
        out, rec, handles, helper, initial = recipes.run_recipe(prog)
        f = recipe_instr_oracle(prog, rg, out, rec)
        for t in f[:5]:
            print('PROPERTY FAILS:', t)
        print('property', 'FAILS' if f else 'HOLDS', 'on this input')
        return 1 if f else 0
    from pyplate import Unit
    if r.get('helper') == 'human_readable':
        v = F(r['value'])
        p, b = split_unit(r['unit'])
        gv, gu = Unit.get_human_readable_unit(float(v), r['unit'])
        gp, gb = split_unit(gu) if v != 0 else (p, b)
        ok = abs(F(gv) * SI[gp][1] - abs(v) * SI[p][1]) <= abs(v) * SI[p][1] * F(1, 10**12)
        print('implementation now:', (gv, gu), 'property', 'HOLDS' if ok else 'FAILS')
        return 0 if ok else 1
    if r.get('helper') == 'standard_format':
        sd = r['substance']
        v = F(r['value'])
        gv, gu = Unit.convert_from_storage_to_standard_format(dsl.make_substance(sd), float(v))
        gp, gb = split_unit(gu)
        b = {'Solid': 'g', 'Liquid': 'L', 'Enzyme': 'U'}[sd['kind']]
        true = histcheck.amount_in(sd, v, b)
        ok = abs(F(gv) * SI[gp][1] - true) <= true * F(1, 10**9) + F(6, 10**11) * SI[gp][1]
        print('implementation now:', (gv, gu), 'true', float(true), b, 'property', 'HOLDS' if ok else 'FAILS')
        return 0 if ok else 1
    return 1
