"""C15 -- container flows and amount remaining balance with the recipe's state.
Tie: correspondence with the model's flows / remaining.  Oracle (independent eager ledger): remaining = total content
of the object at the start / end of the timeframe's first / last step touching it, flows = sums of per-step gains
and losses, inflow - outflow = change in amount remaining, flows non-negative, a pure withdrawal is no inflow."""
import random
from fractions import Fraction as F
import common, dsl, recipes, histcheck

RULE = ('non-trivial = a query on an object that at least one step of the timeframe touches; distinct by (query kind, '
        'object kind, unit, stage kind, mode)')


def oracle(prog, rg, out, qres):
    fails = []
    if out[0] != 'ok' or rg.failed is not None:
        return fails, []
    subs = prog['subs']
    k = F(histcheck.tol_scale(prog))
    H = rg.eager.history
    remaining = {}
    flows = {}
    for q, res in zip(prog['queries'], qres):
        if q['q'] == 'used':
            continue
        a, b = recipes.stage_range(prog, q['stage'])
        touching = [i for i in range(a, b) if q['n'] in recipes.touched_names(prog['steps'][i])]
        half = F(10) ** (-recipes.PRECISION.get(q['unit'], 3)) * F(51, 100)
        rt = recipes.relax(prog) * 10
        if q['q'] == 'remaining':
            if not touching:
                continue       # the property speaks about objects used by at least one step of the timeframe
            i = touching[-1] if q['mode'] == 'after' else touching[0] - 1
            exp = recipes.totals(subs, recipes.ledger_state(rg.initial, H, i, q['n']), q['unit'])
            if res[0] != 'ok':
                fails.append(f"{q}: expected the content {[float(x) for x in exp][:4]}, got {res[:2]}")
                continue
            got = res[1]
            if len(got) != len(exp) or any(abs(x - y) > abs(y) * rt + F(1, 10**6) * k for x, y in zip(got, exp)):
                fails.append(f"{q}: reported {[float(x) for x in got][:6]}, the object holds {[float(x) for x in exp][:6]} {q['unit']}")
            remaining[(q['n'], q['stage'], q['unit'], q['mode'])] = got
        else:
            if res[0] != 'ok':
                fails.append(f"{q}: raised {res[1:]}")
                continue
            width = len(recipes.totals(subs, recipes.ledger_state(rg.initial, H, len(H) - 1, q['n']), q['unit']))
            ein, eout = [F(0)] * width, [F(0)] * width
            for i in touching:
                t0 = recipes.totals(subs, recipes.ledger_state(rg.initial, H, i - 1, q['n']), q['unit'])
                t1 = recipes.totals(subs, recipes.ledger_state(rg.initial, H, i, q['n']), q['unit'])
                if len(t0) != width:
                    t0 = [F(0)] * width
                for j in range(width):
                    d = t1[j] - t0[j]
                    if d > 0:
                        ein[j] += d
                    else:
                        eout[j] -= d
            gin, gout = res[1], res[2]
            for nm, g, e in (('in', gin, ein), ('out', gout, eout)):
                if len(g) != len(e):
                    fails.append(f"{q}: '{nm}' has {len(g)} entries for an object with {len(e)} wells")
                    continue
                for j, (x, y) in enumerate(zip(g, e)):
                    if x < -half:
                        fails.append(f"{q}: negative {nm}flow {float(x)!r} (well {j})")
                    if abs(x - y) > half + abs(y) * rt + F(1, 10**6) * k:
                        fails.append(f"{q}: {nm}flow {float(x)!r}, ledger says {float(y)!r} {q['unit']} (well {j})")
            flows[(q['n'], q['stage'], q['unit'])] = (gin, gout)
    # balance: inflow - outflow = remaining after - remaining before
    for (n, stage, unit), (gin, gout) in flows.items():
        ra, rb = remaining.get((n, stage, unit, 'after')), remaining.get((n, stage, unit, 'before'))
        if ra is None or rb is None or len(ra) != len(gin):
            continue
        half = F(10) ** (-recipes.PRECISION.get(unit, 3)) * F(51, 100)
        for j in range(len(gin)):
            if abs((gin[j] - gout[j]) - (ra[j] - rb[j])) > 2 * half + abs(ra[j]) * recipes.relax(prog) * 10 + F(1, 10**6) * k:
                fails.append(f"object {n}, timeframe {stage}: inflow - outflow = {float(gin[j] - gout[j])!r} but the amount remaining changed by "
                             f"{float(ra[j] - rb[j])!r} {unit} (well {j})")
    return fails, []


def make_queries(rng, rg, tier):
    qs = []
    names = [o['name'] for o in rg.objects] + [st['name'] for st in rg.steps if st['op'] in ('create', 'solution', 'solutionc', 'solfrom')]
    stages = ['all'] + [s['name'] for s in rg.stages]
    for n in names:
        for stg in stages:
            for u in rng.sample(recipes.TOTAL_UNITS, 2) + ([rng.choice(recipes.DECA_UNITS)] if rng.random() < 0.3 else []):
                qs.append({'q': 'flows', 'n': n, 'stage': stg, 'unit': u})
                qs.append({'q': 'remaining', 'n': n, 'stage': stg, 'unit': u, 'mode': 'before'})
                qs.append({'q': 'remaining', 'n': n, 'stage': stg, 'unit': u, 'mode': 'after'})
    return qs


def nontrivial(prog, rg, out, qres):
    keys = []
    if out[0] != 'ok':
        return keys
    kind = {o['name']: o['t'] for o in prog['objects']}
    for q in prog['queries']:
        a, b = recipes.stage_range(prog, q['stage'])
        if any(q['n'] in recipes.touched_names(prog['steps'][i]) for i in range(a, b)):
            keys.append((q['q'], kind.get(q['n'], 'c'), q['unit'], 'all' if q['stage'] == 'all' else 'stage', q.get('mode')))
    return keys


def run(chk, gate, status):
    n = 40 if chk.tier == 'quick' else 400
    hi = 10 if chk.tier == 'quick' else 14     # exact rationals grow with the number of steps: more recipes, not longer ones
    cases = []
    for i in range(n):
        rng = random.Random(chk.seed * 100003 + 150000 + i)
        rg = recipes.RecipeGen(rng, rng.randint(3, hi), allow_d13=False)
        cases.append((rg, make_queries(rng, rg, chk.tier)))
    sp = recipes.directed_recipes()[-1]        # the spiked litre: flows and amounts remaining in nL and nmol
    rp = recipes.Replayed(sp)
    cases.insert(0, (rp, [dict(qd, n=n, unit=u) for n in (1, 2) for u in ('nL', 'nmol', 'ng') for qd in (
        {'q': 'flows', 'stage': 'all'}, {'q': 'remaining', 'stage': 'all', 'mode': 'before'}, {'q': 'remaining', 'stage': 'all', 'mode': 'after'},
        {'q': 'flows', 'stage': 'st1'})]))
    for p in recipes.twin_lot_recipes():
        rp = recipes.Replayed(p)
        qs = []
        for n in (2, 3, 4, 5):
            for u in ('ug', 'mg', 'U', 'uL'):
                qs += [{'q': 'flows', 'n': n, 'stage': 'all', 'unit': u}, {'q': 'remaining', 'n': n, 'stage': 'all', 'unit': u, 'mode': 'before'},
                       {'q': 'remaining', 'n': n, 'stage': 'all', 'unit': u, 'mode': 'after'}]
        cases.insert(0, (rp, qs))
    chk.assumptions += ["no dilute step with new_name (known finding D31)", "fill_to steps address containers or whole plates (D13 is reported under C08/C07)"]
    cov = recipes.check(chk, 'C15', cases, oracle, RULE, nontrivial)
    cov['queries_under_configuration_variants'] = recipes.variants(chk, cases, oracle, 'C15v', limit=8 if chk.tier == 'quick' else 60)
    return cov


def replay(path):
    return recipes.replay(path, oracle)
