"""C07 -- plate operations act well-by-well on exactly the addressed wells.  Oracle: every addressed well is recomputed with the stand-alone Container operation on that well's contents (sequentially for one-to-many / many-to-one), every other well must be identical."""
import random
import common, dsl, gen, histcheck, oracles, recipes
from props import C01 as base

RULE = 'non-trivial = successful plate operation (transfer in/out/between, remove, fill_to) on a region; distinct by (operation, pairing form, region kinds, shapes, unit)'
WEIGHTS = {'newc': 1, 'newp': 0.4, 'cc': 1, 'cp': 4, 'pc': 4, 'pp': 5, 'remove': 2, 'fill': 2, 'bad': 1}


def make_cases(chk):
    n = 60 if chk.tier == 'quick' else 600
    hi = 12 if chk.tier == 'quick' else 16     # the model's exact rationals grow with the length of a history: more histories, not longer ones
    gens = []
    for i in range(n):
        rng = random.Random(chk.seed * 100003 + 40000 + i)
        gens.append(gen.history(rng, rng.randint(6, hi), weights=WEIGHTS, trace=(i % 6 == 5)))
    return gen.twin_plate_cases(chk.seed) + gen.repeated_well_cases(chk.seed) + gen.big_plate_cases(chk.seed) + gens


def nontrivial(prog, obs):
    return [(op['op'],) + tuple(sorted((k, str(sorted(v.get('r', {}).keys())) if isinstance(v, dict) else '') for k, v in op.items() if k in ('src', 'dst', 't'))) + (op.get('q', {}).get('b'),) for op, o in zip(prog['ops'], obs) if o['ok'] and op['op'] in ('transfer', 'remove', 'fill') and any('p' in op.get(k, {}) for k in ('src', 'dst', 't'))]


def run(chk, gate, status):
    gens = make_cases(chk)
    chk.assumptions += ['recipe-level fill_to on a slice is covered by C08 (known finding D13)']
    cov = histcheck.run(chk, gens, oracles.c07, 'C07', RULE, nontrivial)
    # under other configurations (separate processes, dumps only): wells keep the capacity the plate was made with, nothing impossible
    # is produced, feasible requests are accepted (c03), and wells outside the addressed regions stay identical (the frame clause of C01)
    cov['operations_under_configuration_variants'] = histcheck.variants(
        chk, gens, lambda prog, obs, impl: oracles.c03(prog, obs, impl) + base.oracle(prog, obs, impl), 'C07v', limit=8 if chk.tier == 'quick' else 60)
    # recipe steps on plates and slices act on the wells addressed when the step was written (operands spelled as slices, slices of
    # slices and list selectors whose list is changed afterwards): the baked plates against the eager execution and the model
    from props import C08
    n = 14 if chk.tier == 'quick' else 120
    from props import C17
    sub = type(chk).__new__(type(chk)); sub.__dict__.update(chk.__dict__); sub.tier = 'quick'
    # directed: removals on part of a loaded plate (C17's cases, without their queries), transfers inside one plate
    cases, i = [(recipes.Replayed(p), []) for p in recipes.directed_recipes()] + [(rg, []) for rg, _ in C17.recipe_cases(sub)[:8]], 0
    n += len(cases)
    while len(cases) < n and i < 10 * n:
        rng = random.Random(chk.seed * 100003 + 71000 + i)
        i += 1
        rg = recipes.RecipeGen(rng, rng.randint(3, 9), allow_d13=False, with_solutions=False)
        if sum(1 for st in rg.steps if any('p' in st.get(k, {}) for k in ('src', 'dst', 't') if isinstance(st.get(k), dict))) >= 2:
            cases.append((rg, []))

    def recipe_oracle(prog, rg, out, qres):
        f, known = C08.oracle(prog, rg, out, qres)
        return ['recipe steps on plates: ' + x for x in f], known
    rc = recipes.check(chk, 'C07r', cases, recipe_oracle, RULE, C08.nontrivial)
    cov['recipe_clause'] = {k: rc[k] for k in ('programs', 'distinct_nontrivial', 'disagreements_checked', 'oracle_failures')}
    for k in ('evaluations', 'programs', 'disagreements_checked', 'oracle_failures'):
        cov[k] += rc[k]
    return cov


def replay(path):
    import json
    if 'recipe' in json.load(open(path)):
        from props import C08
        return recipes.replay(path, C08.oracle)
    return histcheck.replay(path, oracles.c07)
