"""C07 -- plate operations act well-by-well on exactly the addressed wells.  Oracle: every addressed well is recomputed with the stand-alone Container operation on that well's contents (sequentially for one-to-many / many-to-one), every other well must be identical."""
import random
import common, dsl, gen, histcheck, oracles
from props import C01 as base

RULE = 'non-trivial = successful plate operation (transfer in/out/between, remove, fill_to) on a region; distinct by (operation, pairing form, region kinds, shapes, unit)'
WEIGHTS = {'newc': 1, 'newp': 0.4, 'cc': 1, 'cp': 4, 'pc': 4, 'pp': 5, 'remove': 2, 'fill': 2, 'bad': 1}


def make_cases(chk):
    n = 60 if chk.tier == 'quick' else 600
    hi = 12 if chk.tier == 'quick' else 30
    gens = []
    for i in range(n):
        rng = random.Random(chk.seed * 100003 + 40000 + i)
        gens.append(gen.history(rng, rng.randint(6, hi), weights=WEIGHTS, trace=(i % 6 == 5)))
    
    return gens


def nontrivial(prog, obs):
    return [(op['op'],) + tuple(sorted((k, str(sorted(v.get('r', {}).keys())) if isinstance(v, dict) else '') for k, v in op.items() if k in ('src', 'dst', 't'))) + (op.get('q', {}).get('b'),) for op, o in zip(prog['ops'], obs) if o['ok'] and op['op'] in ('transfer', 'remove', 'fill') and any('p' in op.get(k, {}) for k in ('src', 'dst', 't'))]


def run(chk, gate, status):
    gens = make_cases(chk)
    chk.assumptions += ['recipe-level fill_to on a slice is covered by C08 (known finding D13)']
    return histcheck.run(chk, gens, oracles.c07, 'C07', RULE, nontrivial)


def replay(path):
    return histcheck.replay(path, oracles.c07)
