"""C03 -- impossible states are never produced; infeasible requests are refused.  Oracle: no negative amount/volume, volume <= capacity in every returned value; feasibility of container transfers and fill_to decided independently (requests >= 1e-6 away from the boundary), refusals must be ValueError; directed exact-boundary cases."""
import random
from fractions import Fraction as F
import common, dsl, gen, histcheck, oracles
from props import C01 as base

RULE = 'non-trivial = an operation whose feasibility the oracle decides independently (transfer / fill_to on containers) or a directed exact-capacity case; distinct by (operation, unit, prefix, accepted/refused)'
WEIGHTS = {'newc': 1, 'newp': 0.4, 'cc': 5, 'cp': 3, 'pc': 3, 'pp': 4, 'remove': 1, 'fill': 2.5, 'bad': 3}


def make_cases(chk):
    n = 60 if chk.tier == 'quick' else 600
    hi = 12 if chk.tier == 'quick' else 16     # the model's exact rationals grow with the length of a history: more histories, not longer ones
    gens = []
    for i in range(n):
        rng = random.Random(chk.seed * 100003 + 30000 + i)
        gens.append(gen.history(rng, rng.randint(6, hi), weights=WEIGHTS, trace=(i % 6 == 5)))
    gens += boundary_cases(chk)
    import copy
    from props import C12
    sub = copy.copy(chk); sub.tier = 'quick'
    gens += C12.make_cases(sub)[-(24 if chk.tier == 'quick' else 60):]       # generated stock dilutions, feasible and not (above the stock, more than there is)
    gens += gen.twin_lot_cases(chk.seed) + gen.twin_lot_cases(chk.seed, 'fill') + gen.short_well_cases(chk.seed) + gen.repeated_well_cases(chk.seed)
    return gens


def nontrivial(prog, obs):
    return [(op['op'], op['q']['b'], op['q']['p'], o['ok']) for op, o in zip(prog['ops'], obs) if op['op'] in ('transfer', 'fill') and 'q' in op] + [('newc', o['ok']) for op, o in zip(prog['ops'], obs) if op['op'] == 'newc' and op.get('max')]


def oracle(prog, obs, impl):
    from props import C05
    f = oracles.c03(prog, obs, impl)
    if any(op['op'] in ('solution', 'solutionc') for op in prog['ops']):
        f += [x for x in C05.oracle(prog, obs, impl) if 'no positive solution' in x[1] or 'was refused' in x[1] or 'non-positive' in x[1]]
    if any(op['op'] in ('solfrom', 'solfromc') for op in prog['ops']):
        # an unreachable concentration (above the stock's) or an infeasible stock dilution must be refused, nothing negative comes out
        from props import C12
        f += [x for x in C12.oracle(prog, obs, impl) if "above the stock's" in x[1] or 'accepted' in x[1] or 'negative amount' in x[1] or 'instead of ValueError' in x[1]]
    return f


def non_numbers(chk):
    """requests that are not amounts at all (float() parses 'nan' and 'inf'): every operation must refuse them with ValueError and
    no value with a non-finite amount or volume may ever be returned (implementation only: the model's quantities are rationals)"""
    import math
    from pyplate import Container, Plate, Substance
    w = Substance.liquid('water', 18.0153, 1)
    s = Substance.solid('NaCl', 58.44)
    fails = []

    def finite(o):
        cs = [o] if isinstance(o, Container) else list(o.wells.flatten())
        return all(math.isfinite(c.volume) and all(math.isfinite(a) for a in c.contents.values()) for c in cs)

    def probe(label, f):
        try:
            r = f()
        except ValueError:
            return
        except Exception as e:  # noqa
            fails.append(f"{label}: raised {type(e).__name__} instead of ValueError")
            return
        objs = r if isinstance(r, tuple) else (r,)
        if not all(finite(o) for o in objs if isinstance(o, (Container, Plate))):
            fails.append(f"{label}: accepted and returned a value with a non-finite amount or volume")
        else:
            fails.append(f"{label}: accepted")
    for bad in ('nan', 'NaN', '-inf'):
        a = Container('a', '1 L', [(w, '10 mL'), (s, '1 g')])
        b = Container('b', '1 L')
        p = Plate('p', '500 uL', rows=2, columns=2)
        for u in ('mL', 'g', 'mol'):
            probe(f"Container('c', '1 L', [(water, '{bad} {u}')])", lambda: Container('c', '1 L', [(w, f"{bad} {u}")]))
            probe(f"Container.transfer(a, b, '{bad} {u}')", lambda: Container.transfer(a, b, f"{bad} {u}"))
            probe(f"a.fill_to(water, '{bad} {u}')", lambda: a.fill_to(w, f"{bad} {u}"))
        probe(f"Plate.transfer(a, plate, '{bad} uL')", lambda: Plate.transfer(a, p, f"{bad} uL"))
        probe(f"a.dilute(NaCl, '{bad} M', water)", lambda: a.dilute(s, f"{bad} M", w))
        probe(f"Container.create_solution(NaCl, water, concentration='{bad} M', total_quantity='10 mL')",
              lambda: Container.create_solution(s, w, concentration=f"{bad} M", total_quantity='10 mL'))
        probe(f"Container.create_solution(NaCl, water, concentration='1 M', total_quantity='{bad} mL')",
              lambda: Container.create_solution(s, w, concentration='1 M', total_quantity=f"{bad} mL"))
        probe(f"Container('c', '{bad} L')", lambda: Container('c', f"{bad} L"))
        probe(f"Container.transfer(a, b, '{bad} uL')", lambda: Container.transfer(a, b, f"{bad} uL"))
    # a negative amount is refused however small it is (below the rounding of the base unit as well)
    primer = Substance.solid('primer', 6000)
    for what, bad in ((primer, '-0.02 nmol'), (w, '-0.03 nL'), (primer, '-0.00004 ug'), (w, '-1e-11 L'), (s, '-5e-12 mol')):
        probe(f"Container('c', '200 uL', [(water, '20 uL'), ({what.name}, {bad!r})])", lambda: Container('c', '200 uL', [(w, '20 uL'), (what, bad)]))
        a = Container('a', '1 L', [(w, '10 mL'), (s, '1 g')])
        probe(f"Container.transfer(a, b, {bad!r})", lambda: Container.transfer(a, Container('b', '1 L'), bad))
    # strings that are not "<number> <unit>" (column-formatted, doubled blank, missing blank, trailing blank): refused by the parser,
    # hence by every operation that takes a quantity -- whatever unit they name
    for bad in ('    5 uL', '250  uL', ' 125 uL', '5uL', '5 uL ', '5 u L', '   2 mL', '1  g'):
        a = Container('a', '1 L', [(w, '10 mL'), (s, '1 g')])
        b = Container('b', '1 L')
        p = Plate('p', '500 uL', rows=2, columns=2)
        probe(f"Container.transfer(a, b, {bad!r})", lambda: Container.transfer(a, b, bad))
        probe(f"Plate.transfer(a, plate, {bad!r})", lambda: Plate.transfer(a, p, bad))
        probe(f"a.fill_to(water, {bad!r})", lambda: a.fill_to(w, bad))
    return fails


def recipe_oracle(prog, rg, out, qres):
    import recipes
    fails = []
    if rg.failed is not None and out[0] == 'ok':
        fails.append(f"step {rg.failed[0]} is refused when performed directly ({rg.failed[1]}: {rg.failed[2]}) but bake performed it")
    if out[0] == 'ok':
        for name, d in out[1].items():
            for j, c in enumerate(recipes.containers(d)):
                if c.get('nonfinite'):
                    fails.append(f"bake returned object {name} with a non-finite amount or volume: {c['nonfinite']}")
                if any(a < 0 for a in c['cont'].values()) or c['vol'] < 0:
                    fails.append(f"bake returned object {name} (well {j}) with a negative amount or volume")
                if c['max'] is not None and c['vol'] > c['max'] * (1 + F(1, 10**9)):
                    fails.append(f"bake returned object {name} (well {j}) holding {float(c['vol'])!r} uL in a capacity of {float(c['max'])!r} uL")
    return fails, []


def run(chk, gate, status):
    gens = make_cases(chk)
    chk.assumptions += ['requests within 1e-6 (relative) of a feasibility boundary are not judged by the oracle, except the directed exactly-on-boundary cases built from short decimals']
    # create_solution requests, feasible and infeasible (the refusal clause for the solver-backed operations; generator of C05)
    import copy
    from props import C05
    sub = copy.copy(chk); sub.tier = 'quick'
    gens = gens + C05.make_cases(sub)[:(20 if chk.tier == 'quick' else 60)]
    cov = histcheck.run(chk, gens, oracle, 'C03', RULE, nontrivial)
    cov['operations_under_configuration_variants'] = histcheck.variants(chk, gens[:40], oracles.c03, 'C03v', limit=8 if chk.tier == 'quick' else 60)
    # the same through recipes: bake returns no impossible object and performs no step that is refused when performed directly
    # (containers created by a step with a declared capacity, over-filled ones included)
    import recipes
    cases = []
    for i in range(20 if chk.tier == 'quick' else 200):
        rng = random.Random(chk.seed * 100003 + 33000 + i)
        cases.append((recipes.RecipeGen(rng, rng.randint(3, 9), allow_d13=False, p_over=0.5), []))
    rc = recipes.check(chk, 'C03r', cases, recipe_oracle, RULE, lambda prog, rg, out, qres: [])
    cov['recipe_clause'] = {k: rc[k] for k in ('programs', 'disagreements_checked', 'oracle_failures')}
    for k in ('evaluations', 'programs', 'disagreements_checked', 'oracle_failures'):
        cov[k] += rc[k]
    nn = non_numbers(chk)
    for t in nn[:3]:
        chk.violation(t, {'kind': 'non-number request', 'what': t})
    cov['non_number_probes'] = 3 * 16 + 8 * 3
    cov['oracle_failures'] += 1 if nn else 0
    return cov


def replay(path):
    import json
    r = json.load(open(path))
    if 'recipe' in r:
        import recipes
        return recipes.replay(path, recipe_oracle)
    if r.get('kind') == 'non-number request':
        class C: pass
        nn = non_numbers(C)
        for t in nn[:5]:
            print('PROPERTY FAILS:', t)
        print('property', 'FAILS' if nn else 'HOLDS', 'on this input')
        return 1 if nn else 0
    return histcheck.replay(path, oracle)


def boundary_cases(chk):
    """directed exactly-on-boundary histories (short decimals, equal in Q on both sides): the property says
    'a request that fits, including filling a vessel exactly to its capacity, is accepted'"""
    out = []
    vals = ['50', '70', '100', '0.1', '0.2', '2.5', '33.3', '0.7', '1.1', '250'] if chk.tier == 'quick' else \
        [str(x) for x in (50, 70, 100, 250, 1000)] + ['0.1', '0.2', '0.3', '0.6', '0.7', '1.1', '2.5', '33.3', '4.35', '0.07', '19.99']
    for k, v in enumerate(vals):
        rng = random.Random(chk.seed * 7919 + k)
        g = gen.Gen(rng, kinds=('Liquid', 'Solid'))
        liq = [s for s in g.subs if s['kind'] == 'Liquid'][0]['id']
        q = {'v': v, 'p': 'm', 'b': 'L'}
        # a vessel of capacity v filled with exactly v
        g.emit({'op': 'newc', 'out': g.fresh(), 'name': g.name(), 'max': q, 'init': [[liq, q]]}, 'boundary:construct-full')
        # empty vessel of capacity v, fill_to exactly v
        e = g.fresh()
        g.emit({'op': 'newc', 'out': e, 'name': g.name(), 'max': q, 'init': []})
        g.emit({'op': 'fill', 't': {'c': e}, 'solvent': liq, 'q': q, 'out': g.fresh()}, 'boundary:fill-to-capacity')
        # source holding exactly v, draw exactly v into a vessel of capacity exactly v
        s = g.fresh()
        g.emit({'op': 'newc', 'out': s, 'name': g.name(), 'init': [[liq, q]]})
        g.emit({'op': 'transfer', 'src': {'c': s}, 'dst': {'c': e}, 'q': q, 'osrc': g.fresh(), 'odst': g.fresh()}, 'boundary:draw-all')
        # one step beyond: v + 1 % is refused
        over = {'v': str(float(v) * 1.01), 'p': 'm', 'b': 'L'}
        g.emit({'op': 'fill', 't': {'c': e}, 'solvent': liq, 'q': over, 'out': g.fresh()}, 'boundary:over-capacity')
        out.append(g)
    return out
