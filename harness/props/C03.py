"""C03 -- impossible states are never produced; infeasible requests are refused.  Oracle: no negative amount/volume, volume <= capacity in every returned value; feasibility of container transfers and fill_to decided independently (requests >= 1e-6 away from the boundary), refusals must be ValueError; directed exact-boundary cases."""
import random
import common, dsl, gen, histcheck, oracles
from props import C01 as base

RULE = 'non-trivial = an operation whose feasibility the oracle decides independently (transfer / fill_to on containers) or a directed exact-capacity case; distinct by (operation, unit, prefix, accepted/refused)'
WEIGHTS = {'newc': 1, 'newp': 0.4, 'cc': 5, 'cp': 3, 'pc': 3, 'pp': 4, 'remove': 1, 'fill': 2.5, 'bad': 3}


def make_cases(chk):
    n = 60 if chk.tier == 'quick' else 600
    hi = 12 if chk.tier == 'quick' else 30
    gens = []
    for i in range(n):
        rng = random.Random(chk.seed * 100003 + 30000 + i)
        gens.append(gen.history(rng, rng.randint(6, hi), weights=WEIGHTS, trace=(i % 6 == 5)))
    gens += boundary_cases(chk)
    return gens


def nontrivial(prog, obs):
    return [(op['op'], op['q']['b'], op['q']['p'], o['ok']) for op, o in zip(prog['ops'], obs) if op['op'] in ('transfer', 'fill') and 'q' in op] + [('newc', o['ok']) for op, o in zip(prog['ops'], obs) if op['op'] == 'newc' and op.get('max')]


def run(chk, gate, status):
    gens = make_cases(chk)
    chk.assumptions += ['requests within 1e-6 (relative) of a feasibility boundary are not judged by the oracle, except the directed exactly-on-boundary cases built from short decimals']
    return histcheck.run(chk, gens, oracles.c03, 'C03', RULE, nontrivial)


def replay(path):
    return histcheck.replay(path, oracles.c03)


def boundary_cases(chk):
    """directed exactly-on-boundary histories (short decimals, equal in Q on both sides): the property says
    'a request that fits, including filling a vessel exactly to its capacity, is accepted'"""
    out = []
    vals = ['50', '70', '100', '0.1', '0.2', '2.5', '33.3', '0.7', '1.1', '250'] if chk.tier == 'quick' else \
        [str(x) for x in (50, 70, 100, 250, 1000)] + ['0.1', '0.2', '0.3', '0.6', '0.7', '1.1', '2.5', '33.3', '4.35', '0.07', '19.99']
    for k, v in enumerate(vals):
        rng = random.Random(chk.seed * 7919 + k)
        g = gen.Gen(rng, kinds=('Liquid', 'Solid'))
        liq = [s for s in g.subs if s['kind'] == 'Liquid'][0]['id']
        q = {'v': v, 'p': 'm', 'b': 'L'}
        # a vessel of capacity v filled with exactly v
        g.emit({'op': 'newc', 'out': g.fresh(), 'name': g.name(), 'max': q, 'init': [[liq, q]]}, 'boundary:construct-full')
        # empty vessel of capacity v, fill_to exactly v
        e = g.fresh()
        g.emit({'op': 'newc', 'out': e, 'name': g.name(), 'max': q, 'init': []})
        g.emit({'op': 'fill', 't': {'c': e}, 'solvent': liq, 'q': q, 'out': g.fresh()}, 'boundary:fill-to-capacity')
        # source holding exactly v, draw exactly v into a vessel of capacity exactly v
        s = g.fresh()
        g.emit({'op': 'newc', 'out': s, 'name': g.name(), 'init': [[liq, q]]})
        g.emit({'op': 'transfer', 'src': {'c': s}, 'dst': {'c': e}, 'q': q, 'osrc': g.fresh(), 'odst': g.fresh()}, 'boundary:draw-all')
        # one step beyond: v + 1 % is refused
        over = {'v': str(float(v) * 1.01), 'p': 'm', 'b': 'L'}
        g.emit({'op': 'fill', 't': {'c': e}, 'solvent': liq, 'q': over, 'out': g.fresh()}, 'boundary:over-capacity')
        out.append(g)
    return out
