"""C18 -- answers in user units do not depend on the internal storage configuration.
The same generated scripts (histories with every container / plate operation, solutions, dilutions, stock dilutions,
recipes with tracking queries) are executed in SEPARATE PROCESSES under PYPLATE_CONFIG directories that differ in
moles_storage_unit / volume_storage_unit (prefixed and unprefixed) and internal precision.
Oracle: accept / refuse decisions are identical and every amount, volume and query answer, converted to user units,
agrees across configurations.  Tie: each configuration's run is also compared with the model evaluated under the
matching cfg record (Coq), so the theorems about cfg-generic functions speak about each of them."""
import json, os, random, subprocess, shutil, copy
from fractions import Fraction as F
import common, dsl, gen, histcheck, recipes
from props import C11, C12, C09, C15

RULE = ('non-trivial = a script whose observations were compared across all configurations; distinct by (script kind, seed)')
CONFIGS = [('umol', 'uL', 10), ('mmol', 'mL', 10), ('nmol', 'uL', 10), ('mol', 'uL', 10), ('umol', 'L', 10), ('mol', 'L', 10), ('umol', 'daL', 10),
           ('mmol', 'uL', 10), ('umol', 'uL', 12), ('µmol', 'µL', 10)]      # the last one: the shipped units spelled with the micro sign
YAML = """internal_precision: {prec}
precisions:
  default: 3
  uL: 0
  umol: 1
  mg: 1
volume_storage_unit: {vol}
volume_display_unit: uL
moles_storage_unit: {mol}
moles_display_unit: umol
concentration_display_unit: M
default_solid_density: 1
default_enzyme_density: 1
default_weight_volume_units: g/mL
default_colormap: Purples
default_diverging_colormap: PuOr
"""


def dec(o):
    if isinstance(o, dict):
        if '__f' in o:
            n, d = o['__f'].split('/')
            return F(int(n), int(d))
        return {(int(k) if k.lstrip('-').isdigit() else k): dec(v) for k, v in o.items()}
    if isinstance(o, list):
        return [dec(x) for x in o]
    return o


def run_under(cfg, job, tag):
    d = os.path.join(common.BUILD, 'cfg', tag)
    shutil.rmtree(d, ignore_errors=True)
    os.makedirs(d)
    open(os.path.join(d, 'pyplate.yaml'), 'w').write(YAML.format(mol=cfg[0], vol=cfg[1], prec=cfg[2]))
    json.dump(job, open(os.path.join(d, 'job.json'), 'w'))
    env = dict(os.environ, PYPLATE_CONFIG=d)
    p = subprocess.run(['/venv/bin/python', os.path.join(common.VERIF, 'harness', 'cfgworker.py'), os.path.join(d, 'job.json'), os.path.join(d, 'out.json')],
                       env=env, stdout=subprocess.PIPE, stderr=subprocess.STDOUT, text=True, timeout=1200)
    if p.returncode != 0:
        raise RuntimeError('worker failed under %s: %s' % (cfg, p.stdout[-600:]))
    out = dec(json.load(open(os.path.join(d, 'out.json'))))
    shutil.rmtree(d, ignore_errors=True)
    return out


def user_units(dump, cfg, subs):
    """a container / plate dump converted to configuration independent units: moles (activity units for enzymes), litres"""
    pm = dsl.PFX[cfg[0][:-3]][1]
    pv = dsl.PFX[cfg[1][:-1]][1]
    kinds = {str(s['id']): s['kind'] for s in subs}
    def one(c):
        return {'cont': {k: (v if kinds.get(str(k)) == 'Enzyme' else v * pm) for k, v in c['cont'].items()}, 'vol': c['vol'] * pv,
                'max': None if c['max'] is None else c['max'] * pv}
    if dump['t'] == 'c':
        return [one(dump)]
    return [one(w) for w in dump['wells']]


def cmp_user(a, b, atol_mol, atol_vol, rel=F(1, 10**6)):
    d = []
    for i, (x, y) in enumerate(zip(a, b)):
        if set(x['cont']) != set(y['cont']):
            d.append(f"substances differ: {sorted(x['cont'])} vs {sorted(y['cont'])}")
            continue
        for k in x['cont']:
            if abs(x['cont'][k] - y['cont'][k]) > atol_mol + abs(y['cont'][k]) * rel:
                d.append(f"amount of substance {k} (container/well {i}): {float(x['cont'][k])!r} vs {float(y['cont'][k])!r} mol")
        if abs(x['vol'] - y['vol']) > atol_vol + abs(y['vol']) * rel:
            d.append(f"volume (container/well {i}): {float(x['vol'])!r} vs {float(y['vol'])!r} L")
        if (x['max'] is None) != (y['max'] is None) or (x['max'] is not None and abs(x['max'] - y['max']) > abs(y['max']) * F(1, 10**8)):
            d.append(f"capacity (container/well {i}): {x['max']} vs {y['max']}")
    return d


def near_capacity_cases(chk):
    """requests a little beyond a capacity (0.5 % over): refused under every configuration"""
    out = []
    for k in range(3):
        rng = random.Random(chk.seed * 17 + k)
        g = gen.Gen(rng, kinds=('Liquid',), nsubs=2)
        liq = g.subs[0]['id']
        src = g.fresh()
        g.emit({'op': 'newc', 'out': src, 'name': g.name(), 'init': [[liq, {'v': '10', 'p': 'm', 'b': 'L'}]]})
        p = g.fresh()
        g.emit({'op': 'newp', 'out': p, 'name': g.name(), 'rows': 1, 'cols': 2, 'max': {'v': '100', 'p': 'u', 'b': 'L'}})
        a, b = g.fresh(), g.fresh()
        g.emit({'op': 'transfer', 'src': {'c': src}, 'dst': {'p': p, 'r': {'rect': [[0], [0, 1]]}}, 'q': {'v': '99.5', 'p': 'u', 'b': 'L'}, 'osrc': a, 'odst': b})
        g.emit({'op': 'transfer', 'src': {'c': a}, 'dst': {'p': b, 'r': {'rect': [[0], [0]]}}, 'q': {'v': rng.choice(['1', '0.9']), 'p': 'u', 'b': 'L'}, 'osrc': g.fresh(), 'odst': g.fresh()})
        g.emit({'op': 'transfer', 'src': {'c': a}, 'dst': {'p': b, 'r': {'rect': [[0], [1]]}}, 'q': {'v': '0.3', 'p': 'u', 'b': 'L'}, 'osrc': g.fresh(), 'odst': g.fresh()})
        c = g.fresh()
        g.emit({'op': 'newc', 'out': c, 'name': g.name(), 'max': {'v': '0.2', 'p': 'm', 'b': 'L'}, 'init': [[liq, {'v': '199', 'p': 'u', 'b': 'L'}]]})
        g.emit({'op': 'transfer', 'src': {'c': a}, 'dst': {'c': c}, 'q': {'v': '1.8', 'p': 'u', 'b': 'L'}, 'osrc': g.fresh(), 'odst': g.fresh()})
        out.append(g)
    # very large volumes (a reservoir of megalitres dispensed into basins): read back in kL and ML under every configuration
    g = gen.Gen(random.Random(chk.seed * 100003 + 189000), nsubs=9)
    a, b = g.fresh(), g.fresh()
    g.emit({'op': 'newc', 'out': a, 'name': g.name(), 'init': [[1, {'v': '500', 'p': 'M', 'b': 'L'}]]})
    g.emit({'op': 'newp', 'out': b, 'name': g.name(), 'rows': 2, 'cols': 3, 'max': {'v': '50', 'p': 'M', 'b': 'L'}})
    g.emit({'op': 'transfer', 'src': {'c': a}, 'dst': {'p': b, 'r': {'rect': [[0, 1], [0, 1, 2]]}}, 'q': {'v': '20', 'p': 'M', 'b': 'L'}, 'osrc': g.fresh(), 'odst': g.fresh()})
    out.append(g)
    # a buffer that carries an enzyme (stored in activity units, which no storage prefix scales) used as the solvent of a solution
    q = lambda v, p, b: {'v': v, 'p': p, 'b': b}
    g = gen.Gen(random.Random(chk.seed * 100003 + 189001), nsubs=9)
    buf = g.fresh()
    g.emit({'op': 'newc', 'out': buf, 'name': g.name(), 'init': [[1, q('20', 'm', 'L')], [6, q('2', '', 'U')]]})
    g.emit({'op': 'solutionc', 'solutes': [4], 'solventv': buf, 'name': g.name(), 'mode': {'cs': [{'s': 'M', 'v': '0.1'}], 'total': q('5', 'm', 'L')},
            'osolv': g.fresh(), 'out': g.fresh()})
    out.append(g)
    # a tube with nanomoles of a solute (amounts that are whole multiples of the last digit stored under every configuration) dispensed
    # into four wells: every well receives its share and the tube keeps the rest
    g = gen.Gen(random.Random(chk.seed * 100003 + 189002), nsubs=9)
    tube, plate = g.fresh(), g.fresh()
    g.emit({'op': 'newc', 'out': tube, 'name': g.name(), 'init': [[1, q('60', 'u', 'L')], [5, q('12', 'n', 'mol')]]})
    g.emit({'op': 'newp', 'out': plate, 'name': g.name(), 'rows': 1, 'cols': 4, 'max': q('100', 'u', 'L')})
    g.emit({'op': 'transfer', 'src': {'c': tube}, 'dst': {'p': plate, 'r': {'rect': [[0], [0, 1, 2, 3]]}}, 'q': q('10', 'u', 'L'), 'osrc': g.fresh(), 'odst': g.fresh()}, 'exact-decimals:dispense')
    out.append(g)
    return out


def run(chk, gate, status):
    quick = chk.tier == 'quick'
    nh, nr = (10, 6) if quick else (60, 40)
    configs = CONFIGS[:5] + CONFIGS[7:] if quick else CONFIGS
    # ---- scripts (generated once, under the default configuration of this process)
    progs = []
    kinds = []
    for i in range(nh):
        rng = random.Random(chk.seed * 100003 + 180000 + i)
        g = gen.history(rng, rng.randint(6, 10))
        progs.append(g.prog()); kinds.append('history')
    sub = copy.copy(chk); sub.tier = 'quick'
    for mod, name in ((C11, 'dilute/fill'), (C12, 'stock dilution')):
        taken = 0
        for g in mod.make_cases(sub):
            # sub-microlitre aliquots are below the rounding of the coarse storage units (10 decimals of a litre)
            if any(o['op'] in ('solfrom', 'solfromc') and dsl.qty_val(o['q']) < F(1, 10**4) and o['q']['b'] == 'L' for o in g.ops):
                continue
            if any(o['op'] in ('solfrom', 'solfromc') and F(o['c']['v']) < F(1, 100) for o in g.ops):
                continue
            # trace solutes (nanomoles and below) are below the rounding of the coarse storage units as well
            if g.stats.get('newc:trace:ok') or g.stats.get('newc:trace'):
                continue
            # exactly-on-boundary requests (decided by the last stored digit), nanolitre droplets and nanomolar stocks: not compared across storage units
            if any(str(k).startswith(('boundary:', 'nanolitre:', 'nanomolar:')) for k in g.stats):
                continue
            progs.append(g.prog()); kinds.append(name)
            taken += 1
            if taken >= (6 if quick else 30):
                break
    for g in near_capacity_cases(chk):
        # (amounts that every configuration stores without rounding are compared to three units of the last stored digit)
        progs.append(dict(g.prog(), exact_decimals=True) if any(str(k).startswith('exact-decimals') for k in g.stats) else g.prog()); kinds.append('near capacity')
    rprogs, gen_refused = [], []
    for i in range(nr):
        rng = random.Random(chk.seed * 100003 + 181000 + i)
        try:
            rg = recipes.RecipeGen(rng, rng.randint(3, 8))
            qs = C09.make_queries(rng, rg, chk.tier)[:20] + C15.make_queries(rng, rg, chk.tier)[:24]
        except Exception as e:  # noqa -- the adaptive generator runs the library: a valid call refused there must not hide what the scripts show
            gen_refused.append(f"{type(e).__name__}: {e}"[:200])
            continue
        rprogs.append(rg.prog(qs))
    job = {'progs': progs, 'recipes': rprogs, 'observers': True}
    # ---- separate processes
    results = {}
    for k, cfg in enumerate(configs):
        results[cfg] = run_under(cfg, job, f"c{k}")
        got = results[cfg]['config']
        if (got['mol'], got['vol'], got['precision']) != cfg:
            chk.violation(f"worker did not run under {cfg}: {got}", {'relation': 'PYPLATE_CONFIG'}, found_input=False)
    base = configs[0]
    nfail = ndis = 0
    # ---- cross-configuration oracle
    for pi, prog in enumerate(progs):
        ref = results[base]['progs'][pi]
        for cfg in configs[1:]:
            other = results[cfg]['progs'][pi]
            pm, pv = dsl.PFX[cfg[0][:-3]][1], dsl.PFX[cfg[1][:-1]][1]
            scale = F(histcheck.tol_scale(prog))
            atol_mol = (F(1, 10**9) * max(pm, F(1, 10**6)) + F(1, 10**14)) * scale * len(prog['ops'])
            atol_vol = (F(1, 10**9) * max(pv, F(1, 10**6)) + F(1, 10**14)) * scale * len(prog['ops'])
            # ten decimals of a whole mole / litre are 1e-4 umol / 1e-4 uL: a rounding of the moles shows in the volume, one of a
            # volume in every amount moved by volume (ratios), so under those units values agree to about 1e-3 only; decisions
            # and error classes are compared strictly under every configuration
            rel = F(2, 10**3) if (pm >= 1 or pv >= 1) else F(1, 10**6)
            if pm >= 1:
                atol_vol += atol_mol * F(1, 5) * 4        # up to ~0.2 L/mol, a few substances
            if prog.get('exact_decimals'):
                atol_mol = atol_vol = F(3, 10**10)
            msgs = []
            for i, (a, b) in enumerate(zip(ref, other)):
                if a['ok'] != b['ok']:
                    msgs.append(f"op {i} {json.dumps(prog['ops'][i])[:160]}: {'accepted' if a['ok'] else 'refused (' + a['exc'] + ')'} under {base[:2]}, "
                                f"{'accepted' if b['ok'] else 'refused (' + b['exc'] + ')'} under {cfg[:2]}")
                    break
                if not a['ok']:
                    if a['exc'] != b['exc']:
                        msgs.append(f"op {i}: {a['exc']} under {base[:2]}, {b['exc']} under {cfg[:2]}")
                    continue
                for (v, x), (_, y) in zip(a['out'], b['out']):
                    for t in cmp_user(user_units(x, base, prog['subs']), user_units(y, cfg, prog['subs']), atol_mol, atol_vol, rel):
                        msgs.append(f"op {i} ({prog['ops'][i]['op']}), {base[:2]} vs {cfg[:2]}: {t}")
            # the observers asked in explicit user units (3 decimals; uL 0, umol 1) on every object alive at the end
            if not msgs:
                oa, ob = results[base].get('observers', [{}] * len(progs))[pi], results[cfg].get('observers', [{}] * len(progs))[pi]
                for v in oa:
                    for name, xs in oa[v].items():
                        ys = ob.get(v, {}).get(name)
                        if ys is None or len(ys) != len(xs):
                            msgs.append(f"object {v}: {name} gives {xs[:4]} under {base[:2]}, {ys if ys is None else ys[:4]} under {cfg[:2]}")
                            continue
                        unit = name.split()[1] if name.startswith('get_') else name.split()[2]
                        digits = {'uL': 0, 'umol': 1}.get(unit, 3)
                        for x, y in zip(xs, ys):
                            if isinstance(x, str) or isinstance(y, str):
                                if x != y:
                                    msgs.append(f"object {v}: {name} raises {x} under {base[:2]}, {y} under {cfg[:2]}")
                                continue
                            # (a plate's total is the sum of the wells' rounded read-outs: one unit of the last digit per well)
                            nw = len(oa[v].get('get_volumes uL', [0])) if name.startswith('get_volume ') else 1
                            if abs(x - y) > 1.1 * 10 ** (-digits) * nw + abs(y) * float(rel) * 5:
                                msgs.append(f"object {v}: {name} gives {x!r} under {base[:2]}, {y!r} under {cfg[:2]}")
            if msgs:
                nfail += 1
                if nfail <= 3:
                    chk.violation(msgs[0], {'program': prog, 'configs': [list(base), list(cfg)], 'failures': msgs[:5], 'kind': kinds[pi]})
                break
    for ri, prog in enumerate(rprogs):
        ref = results[base]['recipes'][ri]
        for cfg in configs[1:]:
            other = results[cfg]['recipes'][ri]
            msgs = []
            if ref['bake'][0] != other['bake'][0]:
                msgs.append(f"bake: {ref['bake'][:2]} under {base[:2]}, {other['bake'][:2]} under {cfg[:2]}")
            else:
                for q, a, b in zip(prog['queries'], ref['queries'], other['queries']):
                    if a[0] != b[0]:
                        msgs.append(f"query {q}: {a[:2]} under {base[:2]}, {b[:2]} under {cfg[:2]}")
                        continue
                    if a[0] != 'ok':
                        continue
                    xs, ys = ([[a[1]]], [[b[1]]]) if q['q'] == 'used' else (a[1:], b[1:])
                    pm, pv = dsl.PFX[cfg[0][:-3]][1], dsl.PFX[cfg[1][:-1]][1]
                    coarse = F(1, 10**3) * max(pm, pv, F(1, 10**6)) * 10**6      # storage rounding of the coarser configuration, in micro-units
                    tol = F(10) ** (-recipes.PRECISION.get(q['unit'], 3)) * F(11, 10) + coarse
                    for X, Y in zip(xs, ys):
                        for x, y in zip(X, Y):
                            if abs(x - y) > tol + abs(y) * F(1, 10**5):
                                msgs.append(f"query {q}: {float(x)!r} under {base[:2]}, {float(y)!r} under {cfg[:2]}")
            if msgs:
                nfail += 1
                if nfail <= 3:
                    chk.violation(msgs[0], {'recipe': prog, 'configs': [list(base), list(cfg)], 'failures': msgs[:5]})
                break
    # ---- each configuration against the model under the matching cfg
    terms, index = [], []
    for cfg in configs:
        if cfg[2] != 10:
            continue
        for pi, prog in enumerate(progs):
            p2 = dict(prog, cfg={'mol': cfg[0][:-3], 'vol': cfg[1][:-1]})
            terms.append(dsl.to_coq(p2))
            index.append((cfg, pi))
    model, errors = common.coq_eval('C18', histcheck.IMPORTS, terms, chunk=8)
    for (cfg, pi), m in zip(index, model):
        prog = progs[pi]
        if m is None:
            ndis += 1
            continue
        try:
            mobs = dsl.decode_run(m, len(prog['ops']))
        except Exception:  # noqa
            ndis += 1
            continue
        pm, pv = dsl.PFX[cfg[0][:-3]][1], dsl.PFX[cfg[1][:-1]][1]
        k = histcheck.tol_scale(prog)
        coarse = pm > F(1, 10**6) or pv > F(1, 10**6)     # 10 decimals of a coarse storage unit: results agree to ~1e-6 only
        d = dsl.compare(results[cfg]['progs'][pi], mobs, atol=1e-8 * k, rtol=(2e-3 if (pm >= 1 or pv >= 1) else 1e-5) if coarse else (1e-6 if kinds[pi] == 'stock dilution' else 2e-8))
        if d:
            ndis += 1
            if ndis <= 3 and not nfail:
                chk.violation(f"model/implementation disagree under {cfg[:2]}: " + d[0][1],
                              {'relation': 'Prog.run cfg ~ implementation under PYPLATE_CONFIG', 'program': prog, 'config': list(cfg), 'differences': [t for _, t in d[:5]]},
                              found_input=False)
    if errors:
        chk.violation('model evaluation failed: ' + errors[0][:300], {'relation': 'coq_eval C18'}, found_input=False)
    if gen_refused and not nfail:
        chk.violation('the recipe generator could not run the library on a valid call: ' + gen_refused[0], {'relation': 'recipes.RecipeGen (generation under the shipped configuration)', 'errors': gen_refused[:3]}, found_input=False)
    chk.assumptions += ["scripts use amounts >= micromoles / microlitres so that 10 decimals of a coarse storage unit (mol, L, daL) stay below the comparison tolerance",
                        "configurations the YAML loader rejects are out of scope"]
    return {'evaluations': (len(progs) + len(rprogs)) * len(configs), 'programs': len(progs) + len(rprogs), 'configurations': [list(c) for c in configs],
            'distinct_nontrivial': len(progs) + len(rprogs), 'rule': RULE, 'disagreements_checked': ndis, 'oracle_failures': nfail,
            'generator_distribution': {k: kinds.count(k) for k in set(kinds)} | {'recipes': len(rprogs)},
            'samples': [{'kind': kinds[0], 'ops': [json.dumps(o)[:120] for o in progs[0]['ops'][:3]]}]}


def replay(path):
    r = json.load(open(path))
    print(json.dumps({k: v for k, v in r.items() if k not in ('program', 'recipe')}, indent=1)[:1500])
    cfgs = [tuple(c) for c in r.get('configs', [])]
    if not cfgs:
        return 1
    job = {'progs': [r['program']] if 'program' in r else [], 'recipes': [r['recipe']] if 'recipe' in r else []}
    outs = [run_under(c, job, f"replay{k}") for k, c in enumerate(cfgs)]
    bad = False
    if job['progs']:
        prog = job['progs'][0]
        for i, (a, b) in enumerate(zip(outs[0]['progs'][0], outs[1]['progs'][0])):
            print(i, json.dumps(prog['ops'][i])[:140], '|', 'ok' if a['ok'] else a['exc'], '|', 'ok' if b['ok'] else b['exc'])
            if a['ok'] != b['ok']:
                bad = True
                break
            if a['ok']:
                for (v, x), (_, y) in zip(a['out'], b['out']):
                    if cmp_user(user_units(x, cfgs[0], prog['subs']), user_units(y, cfgs[1], prog['subs']), F(1, 10**9), F(1, 10**9)):
                        bad = True
    else:
        a, b = outs[0]['recipes'][0], outs[1]['recipes'][0]
        print(a['bake'][:2], b['bake'][:2])
        bad = a['bake'][0] != b['bake'][0] or any(x[0] != y[0] or (x[0] == 'ok' and str(x[1:]) != str(y[1:])) for x, y in zip(a['queries'], b['queries']))
    print('property', 'FAILS' if bad else 'HOLDS', 'on this input')
    return 1 if bad else 0
