"""C16 -- recipe lifecycle discipline.  Tie: translator (guard table of the Recipe methods, gen/LifecycleGen.v,
proved equal to the table the automaton implements) + correspondence by complete enumeration: every call of the
alphabet from every lifecycle state reachable within the bound (one representative path per state).
Oracle: the discipline stated by the property, evaluated on the implementation's own outcomes."""
import copy, json
import common
from common import coq_list

# objects: names -> numbers used by the model
NAMES = {'a': 1, 'b': 2, 'p': 3, 'u': 4, 'b[2]': 4, 'k': 5, 'sol': 6, 'sf': 7, 'sc': 8, 'a2': 1, 'p:s': 3}     # a2: a second, different object that is also named 'a'; p:s: a row of plate p
REAL = {'a2': 'a', 'u': 'b[2]'}      # object u is NAMED 'b[2]': a name is an arbitrary string, and 'b' is another object
STAGES = {'all': 0, 's1': 1, 's2': 2}
RULE = ('complete enumeration: every call of the 38-call alphabet from every distinct lifecycle state reachable in <= N calls '
        '(N = 3 quick, 4 thorough), one representative path per state; non-trivial = every (state, call) pair; '
        'distinct by (state key, call)')

ALPHABET = [
    ('uses', ('a',)), ('uses', ('b',)), ('uses', ('p',)), ('uses', ('a', 'b')), ('uses', ('b', 'a', 'p')), ('uses', ('b', 'a', 'a2')), ('uses', ('a2',)), ('uses_iter', ('a', 'b')), ('uses_list', ('u', 'p')),
    ('create_container', 'k'), ('create_container', 'a'),
    ('create_solution', 'sol', None), ('create_solution', 'sc', 'a'), ('create_solution', 'sc', 'u'),
    ('create_solution_from', 'a', 'sf'), ('create_solution_from', 'u', 'sf'),
    ('transfer', 'a', 'b'), ('transfer', 'a', 'p'), ('transfer', 'u', 'a'), ('transfer', 'a', 'u'),
    ('transfer', 'a', 'p:s'), ('remove', 'p:s'), ('fill_to', 'p'), ('fill_to', 'p:s'),
    ('remove', 'b'), ('remove', 'u'), ('dilute', 'a'), ('dilute', 'u'), ('dilute_rename', 'a'), ('fill_to', 'b'), ('fill_to', 'u'),
    ('start_stage', 's1'), ('start_stage', 's2'), ('start_stage', 'all'),
    ('end_stage', 's1'), ('end_stage', 's2'), ('end_stage', 'all'),
    ('bake',),
]


class World:
    def __init__(self):
        from pyplate import Substance, Container, Plate, Recipe
        self.water = Substance.liquid('water', 18.0153, 1)
        self.salt = Substance.solid('NaCl', 58.44)
        self.objs = {
            'a': Container.create_solution(self.salt, self.water, 'a', concentration='1 M', total_quantity='10 mL'),
            'b': Container('b'),
            'p': Plate('p', '1 mL', rows=2, columns=2),
            'u': Container('b[2]', initial_contents=[(self.water, '5 mL'), (self.salt, '1 mmol')]),
            'a2': Container('a', initial_contents=[(self.water, '40 mL'), (self.salt, '5 mmol')]),
        }
        self.recipe = Recipe()
        self.created = {}
        self.baked = None

    def obj(self, n):
        if ':' in n:      # a slice of a plate: declared iff its plate is
            return self.obj(n.split(':')[0])[1, :]
        return self.created.get(n) or self.objs[n]

    def call(self, c):
        r = self.recipe
        k = c[0]
        if k == 'uses':
            r.uses(*[self.obj(n) for n in c[1]])
        elif k == 'uses_iter':       # the documented "iterable of containers and plates", as a one-shot iterator
            r.uses(self.obj(n) for n in c[1])
        elif k == 'uses_list':
            r.uses([self.obj(n) for n in c[1]])
        elif k == 'create_container':
            self.created.setdefault(c[1] + '!', None)
            x = r.create_container(c[1], initial_contents=[(self.water, '5 mL'), (self.salt, '5 mmol')])
            if c[1] not in self.objs:
                self.created[c[1]] = x
        elif k == 'create_solution':
            solvent = self.water if c[2] is None else self.obj(c[2])
            x = r.create_solution(self.salt, solvent, name=c[1], concentration='0.1 M', total_quantity='1 mL')
            self.created[c[1]] = x
        elif k == 'create_solution_from':
            x = r.create_solution_from(self.obj(c[1]), self.salt, '0.1 M', self.water, '1 mL', name=c[2])
            self.created[c[2]] = x
        elif k == 'transfer':
            r.transfer(self.obj(c[1]), self.obj(c[2]), '1 uL')
        elif k == 'remove':
            r.remove(self.obj(c[1]), self.salt)
        elif k == 'dilute':
            r.dilute(self.obj(c[1]), self.salt, '0.5 M', self.water)
        elif k == 'dilute_rename':
            r.dilute(self.obj(c[1]), self.salt, '0.5 M', self.water, new_name='renamed')
        elif k == 'fill_to':
            r.fill_to(self.obj(c[1]), self.water, '0.5 mL' if c[1].startswith('p') else '2 mL')     # the wells of p hold 1 mL
        elif k == 'start_stage':
            r.start_stage(c[1])
        elif k == 'end_stage':
            r.end_stage(c[1])
        elif k == 'bake':
            self.baked = r.bake()

    def state(self):
        r = self.recipe
        stages = sorted((STAGES[n], s.start, s.stop) for n, s in r.stages.items() if n != 'all')
        return (bool(r.locked), STAGES[r.current_stage], len(r.steps), tuple(NAMES.get(n, 99) for n in r.results), tuple(stages))

    def key(self):
        r = self.recipe
        # everything later behaviour can depend on (used matters for bake)
        return self.state() + (tuple(sorted(r.used)), tuple(tuple(sorted(s.objects_used)) for s in r.steps),
                               tuple((s.operator, getattr(s.to[0], 'name', None) if not hasattr(s.to[0], 'plate') else s.to[0].plate.name,
                                      tuple(o for o in s.operands if isinstance(o, str)))
                                     for s in r.steps))


def apply(world, c):
    try:
        world.call(c)
        return ('ok',)
    except Exception as e:  # noqa
        return ('exc', common.exc_class(e), str(e)[:80])


def coq_call(c):
    k = c[0]
    n = lambda x: str(NAMES[x])
    if k in ('uses', 'uses_iter', 'uses_list'):
        return "CUses " + coq_list([n(x) + '%nat' for x in c[1]])
    if k == 'create_container':
        return f"CCreateContainer {n(c[1])}"
    if k == 'create_solution':
        return f"CCreateSolution {n(c[1])} " + ("None" if c[2] is None else f"(Some {n(c[2])}%nat)")
    if k == 'create_solution_from':
        return f"CCreateSolutionFrom {n(c[1])} {n(c[2])}"
    if k == 'transfer':
        return f"CTransfer {n(c[1])} {n(c[2])}"
    if k in ('remove', 'dilute', 'fill_to', 'dilute_rename'):
        return {'remove': 'CRemove', 'dilute': 'CDilute', 'fill_to': 'CFillTo', 'dilute_rename': 'CDilute'}[k] + ' ' + n(c[1])
    if k == 'start_stage':
        return f"CStartStage {STAGES[c[1]]}"
    if k == 'end_stage':
        return f"CEndStage {STAGES[c[1]]}"
    return "CBake"


def explore(depth, last_stride=1):
    """breadth-first over lifecycle states of the implementation; returns list of (path, call, outcomes along path+call, states)"""
    start = World()
    seen = {start.key(): ()}
    frontier = [((), start)]
    cases = []
    for d in range(depth + 1):
        nxt = []
        for path, w in (frontier if d < depth else frontier[::last_stride]):
            for c in ALPHABET:
                w2 = copy.deepcopy(w)
                out = apply(w2, c)
                cases.append((path, c, out, w2.state(), w2.baked is not None and sorted(w2.baked.keys())))
                k = w2.key()
                if c[0] == 'bake' and out[0] == 'exc' and out[1] != 'RuntimeError' and 'declared as used' not in str(out[2]):
                    continue      # bake failed inside a step (chemistry, not lifecycle): the automaton does not model it, nothing is explored from there
                if k not in seen and d < depth:
                    seen[k] = path + (c,)
                    nxt.append((path + (c,), w2))
        frontier = nxt
    return cases, len(seen)


def decode(ints, ncalls):
    r = common.Reader(ints)
    out = []
    for _ in range(ncalls):
        if r.int() == 1:
            o = ('ok',)
        else:
            o = ('exc', common.ERR_CODE[r.int()])
        locked, cur, nsteps, nd = r.int(), r.int(), r.int(), r.int()
        declared = tuple(r.int() for _ in range(nd))
        ns = r.int()
        stages = tuple(sorted((r.int(), r.int(), r.int()) for _ in range(ns)))
        out.append((o, (bool(locked), cur, nsteps, declared, stages)))
    assert r.done()
    return out


DECLARING = {'uses', 'uses_iter', 'uses_list', 'create_container', 'create_solution', 'create_solution_from'}
STEP_ADDING = {'transfer', 'remove', 'dilute', 'dilute_rename', 'fill_to', 'create_container', 'create_solution', 'create_solution_from'}


def oracle(path, c, out, before, after, baked_keys):
    """the discipline of the property on one (state, call); before/after = observable lifecycle states"""
    fails = []
    locked, cur, nsteps, declared, stages = before
    names = {v: k for k, v in NAMES.items() if k not in REAL and ':' not in k}      # objects are identified by name
    names[99] = 'renamed'
    decl = {names[x] for x in declared}
    k = c[0]
    if locked:
        if out[0] == 'ok' or out[1] != 'RuntimeError':
            fails.append(f"after a successful bake {c} must raise RuntimeError, got {out}")
        if after != before:
            fails.append(f"after a successful bake {c} changed the recipe state")
        return fails
    operands = {'transfer': c[1:3], 'remove': c[1:2], 'dilute': c[1:2], 'dilute_rename': c[1:2], 'fill_to': c[1:2],
                'create_solution_from': c[1:2], 'create_solution': (c[2],) if k == 'create_solution' and c[2] else ()}.get(k, ())
    operands = tuple(REAL.get(o.split(':')[0], o.split(':')[0]) for o in operands)      # a slice stands for its plate; objects are known by their names
    if any(o not in decl for o in operands):
        if out[0] == 'ok':
            fails.append(f"{c} uses an object that was never declared but was accepted")
        elif after != before:
            fails.append(f"rejected call {c} changed the recipe state")
    new = {'create_container': c[1:2], 'create_solution': c[1:2], 'create_solution_from': c[2:3]}.get(k, ())
    if all(o in decl for o in operands) and any(x in decl for x in new) and out[0] == 'ok':
        fails.append(f"{c} creates a second object with an existing name but was accepted")
    if k in ('uses', 'uses_iter', 'uses_list'):
        nm = [REAL.get(x, x) for x in c[1]]
        if (len(set(nm)) < len(nm) or any(x in decl for x in nm)) and out[0] == 'ok':
            fails.append(f"{c} declares a name that exists already (or twice in one call: objects {c[1]} are named {nm}) but was accepted")
    if k == 'start_stage':
        known = {'all'} | {n for n, v in STAGES.items() if any(s[0] == v for s in stages)}
        if (cur != 0 or c[1] in known) and out[0] == 'ok':
            fails.append(f"{c} accepted although a stage is open or the name exists")
        if cur == 0 and c[1] not in known and out[0] != 'ok':
            fails.append(f"{c} refused although no stage is open and the name is new: {out}")
    if k == 'end_stage' and out[0] == 'ok' and (c[1] == 'all' or STAGES[c[1]] != cur):
        fails.append(f"{c} accepted although that stage is not the open one")
    if k == 'bake' and out[0] == 'ok':
        if after[1] != 0:
            fails.append("bake left a stage open")
        if cur != 0 and not any(s[0] == cur for s in after[4]):
            fails.append("bake did not record the stage that was open")
        if not after[0]:
            fails.append("successful bake did not lock the recipe")
        if baked_keys is not False and sorted(baked_keys) != sorted(names[x] for x in after[3]):
            fails.append(f"bake returned names {baked_keys}, declared {sorted(names[x] for x in after[3])}")
    if out[0] == 'ok' and k in STEP_ADDING and after[2] != nsteps + 1:
        fails.append(f"{c} accepted but the number of steps went from {nsteps} to {after[2]}")
    if k == 'bake' and out[0] != 'ok' and after[0] and not locked:
        fails.append(f"a refused bake ({out[1]}) locked the recipe: only a successful bake does")
    if out[0] != 'ok' and k not in ('uses', 'uses_iter', 'uses_list') and k != 'bake' and after != before:
        fails.append(f"rejected call {c} changed the recipe state")
    return fails


def probe_other_arguments():
    """uses() takes containers, plates and iterables of them: a dict (what bake returns), a string or a number is refused and
    leaves the recipe as it was -- also when the dict holds an object whose name is declared already"""
    fails = []
    for setup in ((), (('uses', ('a',)),), (('uses', ('a', 'b')), ('transfer', 'a', 'b'))):
        for what in ('dict', 'str', 'int'):
            w = World()
            for c in setup:
                apply(w, c)
            before = w.key()
            arg = {'dict': {'a': w.objs['a2'], 'b': w.objs['b']}, 'str': 'a', 'int': 3}[what]
            try:
                w.recipe.uses(arg)
                out = ('ok',)
            except Exception as e:  # noqa
                out = ('exc', common.exc_class(e))
            if out[0] == 'ok' or w.key() != before:
                fails.append((f"after {setup}: uses({what}) -> {out}; the recipe state {'changed' if w.key() != before else 'is unchanged'} "
                              f"(declared names now {list(w.recipe.results)})", {'calls': [list(x) for x in setup] + [['uses_' + what]], 'kind': 'other-argument'}))
    return fails


def run(chk, gate, status):
    depth = 3 if chk.tier == 'quick' else 4
    stride = 1      # every call from every state reachable within the bound (thorough: depth 4, about 640 000 (state, call) pairs, 12 minutes)
    cases, nstates = explore(depth, stride)
    # unused-object clause: needs the set of used names, which bake computes; checked through the model and directly below
    terms = ["showCalls init " + coq_list(["(" + coq_call(x) + ")" for x in path + (c,)]) for (path, c, out, st, bk) in cases]
    model, errors = common.coq_eval('C16', 'Base Lifecycle', terms, chunk=600)
    # state before the last call: replay prefixes on the implementation once per distinct path
    before_cache = {}
    ndis = nfail = physical = 0
    dist = {}
    samples = []
    for idx, ((path, c, out, after, bk), m) in enumerate(zip(cases, model)):
        dist[c[0]] = dist.get(c[0], 0) + 1
        if path not in before_cache:
            w = World()
            for x in path:
                apply(w, x)
            before_cache[path] = (w.state(), set(w.recipe.used), set(w.recipe.results))
        before, used, declared = before_cache[path]
        fails = oracle(path, c, out, before, after, bk)
        if c[0] == 'bake' and not before[0]:
            # an unused declared object blocks bake
            touched = set(used)
            w = World()
            for x in path:
                apply(w, x)
            for s in w.recipe.steps:
                for e in s.frm + s.to:
                    if e is not None:
                        touched.add(e.plate.name if hasattr(e, 'plate') else e.name)
                for o in s.operands:
                    if hasattr(o, 'contents') and o.name in declared:
                        touched.add(o.name)
            if (declared - touched) and out[0] == 'ok':
                fails.append(f"bake succeeded although {sorted(declared - touched)} were declared and never used")
            # (a step that cannot be performed -- e.g. a second dilution of an object whose name a later create_solution
            #  re-bound to a weaker solution -- makes bake raise for a reason that is not the lifecycle's: only the
            #  lifecycle refusals are this property's subject)
            if not (declared - touched) and out[0] != 'ok' and (out[1] == 'RuntimeError' or 'declared as used' in str(out[2])):
                fails.append(f"bake refused although every declared object is used: {out}")
        if fails:
            nfail += 1
            if nfail <= 3:
                chk.violation(fails[0], {'calls': [list(x) for x in path + (c,)], 'failures': fails, 'outcome': list(out)})
        if m is None:
            ndis += 1
            continue
        try:
            dm = decode(m, len(path) + 1)
        except Exception:  # noqa
            ndis += 1
            continue
        mo, ms = dm[-1]
        if c[0] == 'bake' and (mo[0] == 'ok' or mo[1] == 'ValueError') and out[0] == 'exc' and out[1] != 'RuntimeError' and 'declared as used' not in str(out[2]) and after[0] is False and (after[1:] == ms[1:] or after == before_cache[path][0]):
            # a recorded step cannot be performed (a second dilution to a concentration already reached, a dilution of an object whose
            # name a later create_solution re-bound, a step that refers to an object renamed by dilute(new_name=...) ...): bake performs the
            # steps before it looks for unused declarations, raises for a reason the lifecycle automaton does not model, and leaves
            # the recipe unbaked (an open stage is closed by the attempt, as in the model).  Counted, not compared; that steps are performed faithfully is C08's subject.
            physical += 1
            continue
        agree = (mo[0] == out[0]) and (mo[0] == 'ok' or (mo[1] == out[1] if mo[1] != 'Other' else out[1] not in ('ValueError', 'TypeError', 'RuntimeError'))) and ms == after
        if not agree:
            ndis += 1
            if ndis <= 3 and not fails:
                chk.violation(f"model/implementation disagree after calls {path + (c,)}: impl {out} {after}, model {mo} {ms}",
                              {'relation': 'Lifecycle.step_api ~ Recipe', 'calls': [list(x) for x in path + (c,)], 'impl': str((out, after)),
                               'model': str((mo, ms))}, found_input=False)
        if idx % 1500 == 0 and len(samples) < 4:
            samples.append({'calls': str(path + (c,))[:200], 'impl': str((out[:2], after))[:160], 'model': str((mo, ms))[:160]})
    for msg, doc in probe_other_arguments()[:3]:
        nfail += 1
        chk.violation(msg, doc)
    if errors:
        chk.violation('model evaluation failed: ' + errors[0][:300], {'relation': 'coq_eval C16'}, found_input=False)
    chk.assumptions += ["arguments are well typed and the chemistry of every step is feasible (1 uL transfers out of 10 mL); only the lifecycle is varied",
                        "dilute(..., new_name=...) is in the alphabet for its lifecycle effect only; its effect on the tracking queries is known finding D31 (C09/C15)"]
    return {'evaluations': len(cases), 'programs': len(cases), 'distinct_nontrivial': len({(p, c) for p, c, *_ in cases}), 'rule': RULE,
            'exhaustive': True, 'exhaustive_bound': f"all {len(ALPHABET)} calls from all lifecycle states reachable in <= {depth if stride == 1 else depth - 1} calls" + (f" and from every {stride}rd state at depth {depth}" if stride > 1 else '') + f" ({nstates} states)",
            'states': nstates, 'bake_refused_for_an_infeasible_step_not_compared': physical, 'disagreements_checked': ndis, 'oracle_failures': nfail, 'samples': samples,
            'generator_distribution': dist, 'translator_status': status.get('LifecycleGen'), 'symbolic_extraction_status': status.get('LifecycleSym'), 'tie_used': (status.get('tie') or {}).get('LifecycleTie')}


def replay(path):
    r = json.load(open(path))
    print(json.dumps(r, indent=1)[:2500])
    if r.get('kind') == 'other-argument':
        f = probe_other_arguments()
        for msg, _ in f:
            print('PROPERTY FAILS:', msg)
        print('property', 'FAILS' if f else 'HOLDS', 'on this input')
        return 1 if f else 0
    if 'calls' not in r:
        return 1
    w = World()
    calls = [tuple(tuple(y) if isinstance(y, list) else y for y in x) for x in r['calls']]
    for x in calls[:-1]:
        print(x, apply(w, x))
    before = w.state()
    out = apply(w, calls[-1])
    print(calls[-1], out, w.state())
    fails = oracle(tuple(calls[:-1]), calls[-1], out, before, w.state(), w.baked is not None and sorted(w.baked.keys()))
    print('property', 'FAILS: ' + '; '.join(fails) if fails else 'HOLDS', 'on this input')
    return 1 if fails else 0
