"""C09 -- get_substance_used reports the net gain of the destinations over the timeframe.
Tie: correspondence (queries on the baked recipe vs Recipe.substance_used of the model).  Oracle: the ledger identity
used = sum over destinations (amount at the end - amount at the start of the timeframe) + discarded by remove steps,
from the independent eager ledger (never reads RecipeStep snapshots), in the requested unit; net decrease -> ValueError;
stage amounts add up when the stages tile the recipe."""
import random
from fractions import Fraction as F
import common, dsl, recipes, histcheck

RULE = ('non-trivial = a query over a timeframe in which the substance changes in some destination or is discarded; '
        'distinct by (substance kind, unit, stage kind, destination form, sign of the net change)')


def expected_raw(prog, rg, sid, stage, dests):
    a, b = recipes.stage_range(prog, stage)
    H = rg.eager.history
    tot = F(0)
    for d in dests:
        tot += recipes.amount(recipes.ledger_state(rg.initial, H, b - 1, d), sid) - recipes.amount(recipes.ledger_state(rg.initial, H, a - 1, d), sid)
    for k in range(a, b):
        tot += rg.eager.trash[k].get(sid, F(0))
    return tot


def oracle(prog, rg, out, qres):
    fails = []
    if out[0] != 'ok' or rg.failed is not None:
        return fails, []
    subs = {s['id']: s for s in prog['subs']}
    k = F(histcheck.tol_scale(prog))
    by_stage = {}
    for q, res in zip(prog['queries'], qres):
        if q['q'] != 'used':
            continue
        dests = q['dests'] if q['dests'] != 'plates' else [o['name'] for o in prog['objects'] if o['t'] == 'p']
        raw = expected_raw(prog, rg, q['s'], q['stage'], dests)
        sd = subs[q['s']]
        p, b = recipes.split_unit(q['unit'])
        exp = histcheck.amount_in(sd, raw, b) / dsl.PFX[p][1]
        tol = F(10) ** (-recipes.PRECISION.get(q['unit'], 3)) * F(51, 100) + abs(exp) * recipes.relax(prog) * 10
        noise = F(1, 10**6) * k
        if raw < -noise:
            if res[0] != 'exc' or res[1] != 'ValueError':
                fails.append(f"{q}: the destinations lose {float(-raw)!r} (storage units) over the timeframe, expected ValueError, got {res[:2]}")
        elif raw > noise or raw == 0:
            if res[0] != 'ok':
                fails.append(f"{q}: net gain {float(raw)!r} (storage units) but the query raised {res[1:]}")
            elif abs(res[1] - exp) > tol + noise:
                fails.append(f"{q}: reported {float(res[1])!r}, ledger says {float(exp)!r} {q['unit']}")
        if res[0] == 'ok' and q['dests'] == 'plates':
            by_stage[(q['s'], q['unit'], q['stage'])] = res[1]
    # stage additivity: stages that tile the whole recipe
    st = sorted(prog['stages'], key=lambda s: s['start'])
    if st and st[0]['start'] == 0 and st[-1]['stop'] == len(prog['steps']) and all(st[i]['stop'] == st[i + 1]['start'] for i in range(len(st) - 1)):
        for (sid, unit, stage), v in list(by_stage.items()):
            if stage == 'all' and all((sid, unit, s['name']) in by_stage for s in st):
                tot = sum(by_stage[(sid, unit, s['name'])] for s in st)
                half = F(10) ** (-recipes.PRECISION.get(unit, 3)) * F(51, 100)
                if abs(tot - v) > half * (len(st) + 1) + abs(v) * F(1, 10**5):
                    fails.append(f"stage amounts of substance {sid} in {unit} add up to {float(tot)!r} but the whole recipe reports {float(v)!r}")
    return fails, []


def make_queries(rng, rg, tier):
    qs = []
    names = [o['name'] for o in rg.objects] + [st['name'] for st in rg.steps if st['op'] in ('create', 'solution', 'solutionc', 'solfrom')]
    stages = ['all'] + [s['name'] for s in rg.stages]
    subs = list(rg.subs)
    for sd in subs:
        units = recipes.UNITS_BY_KIND[sd['kind']]
        for stg in stages:
            u = rng.choice(units)
            qs.append({'q': 'used', 's': sd['id'], 'stage': stg, 'unit': u, 'dests': 'plates'})
            qs.append({'q': 'used', 's': sd['id'], 'stage': stg, 'unit': rng.choice(units), 'dests': [rng.choice(names)]})
            if len(names) >= 2:
                qs.append({'q': 'used', 's': sd['id'], 'stage': stg, 'unit': rng.choice(units), 'dests': rng.sample(names, rng.randint(2, len(names)))})
    return qs


def nontrivial(prog, rg, out, qres):
    keys = []
    if out[0] != 'ok' or rg.failed is not None:
        return keys
    kinds = {s['id']: s['kind'] for s in prog['subs']}
    for q, res in zip(prog['queries'], qres):
        dests = q['dests'] if q['dests'] != 'plates' else [o['name'] for o in prog['objects'] if o['t'] == 'p']
        raw = expected_raw(prog, rg, q['s'], q['stage'], dests)
        a, b = recipes.stage_range(prog, q['stage'])
        if raw != 0 or any(rg.eager.trash[k].get(q['s']) for k in range(a, b)):
            keys.append((kinds[q['s']], q['unit'], 'all' if q['stage'] == 'all' else ('empty' if a == b else 'stage'),
                         'plates' if q['dests'] == 'plates' else len(q['dests']), raw > 0))
    return keys


def run(chk, gate, status):
    n = 40 if chk.tier == 'quick' else 400
    hi = 10 if chk.tier == 'quick' else 14     # exact rationals grow with the number of steps: more recipes, not longer ones
    cases = []
    for i in range(n):
        rng = random.Random(chk.seed * 100003 + 90000 + i)
        rg = recipes.RecipeGen(rng, rng.randint(3, hi), allow_d13=False)
        cases.append((rg, make_queries(rng, rg, chk.tier)))
    chk.assumptions += ["no dilute step with new_name (known finding D31: the tracking queries identify containers by name)",
                        "fill_to steps address containers or whole plates (known finding D13 changes what a slice fill does; it is reported under C08/C07)"]
    for p in recipes.directed_recipes():
        rp = recipes.Replayed(p)
        cases.insert(0, (rp, make_queries(random.Random(chk.seed * 7 + len(cases)), rp, chk.tier)))
    cov = recipes.check(chk, 'C09', cases, oracle, RULE, nontrivial)
    cov['queries_under_configuration_variants'] = recipes.variants(chk, cases, oracle, 'C09v', limit=8 if chk.tier == 'quick' else 60)
    return cov


def replay(path):
    return recipes.replay(path, oracle)
