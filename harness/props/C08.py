"""C08 -- baking a recipe equals performing its steps eagerly, in order.
Tie: correspondence (Recipe.bake vs the model's bake, vm_compute).  Oracle: the implementation's bake() against the
implementation's own eager fold through Container.* / Plate.* (the ledger built while generating), name by name,
and the key set of the returned dictionary."""
import random
from fractions import Fraction as F
import common, dsl, recipes

RULE = ('non-trivial = baked program with >= 2 steps touching a common object; distinct by (multiset of step kinds, '
        'number of objects, failing step index)')


def against_ledger(prog, rg, out):
    """the outcome of bake() against an eager ledger (the steps performed one by one through Container.* / Plate.*)"""
    fails = []
    if rg.failed is not None:
        # the eager fold fails at step k: bake must fail too, with the same class
        if out[0] == 'ok':
            fails.append(f"eager execution fails at step {rg.failed[0]} ({rg.failed[1]}: {rg.failed[2]}) but bake succeeded")
        elif out[1] != rg.failed[1] and not (rg.failed[1] in ('ValueError', 'LinAlgError') and out[1] in ('ValueError', 'LinAlgError')):
            fails.append(f"eager execution raises {rg.failed[1]} at step {rg.failed[0]}, bake raised {out[1]}: {out[2]}")
        return fails
    if out[0] != 'ok':
        return [f"every step is feasible when performed eagerly, but bake raised {out[1]}: {out[2]}"]
    final = rg.eager.history[-1] if rg.eager.history else rg.initial
    if set(out[1]) != set(final):
        fails.append(f"bake returned names {sorted(map(str, out[1]))}, declared and created names are {sorted(final)}")
    k = F(recipes.histcheck_tol(prog))
    for name, d in out[1].items():
        if name not in final:
            continue
        # (under a coarser storage unit -- configuration variants, tol_k -- ten decimals are 1e-7 umol per operation)
        diffs = dsl.cmp_obj(d, final[name], F(1, 10**8) * k, F(1, 10**9) * F(prog.get('tol_k', 1)), f"object {name}")
        if diffs:
            fails.append('bake differs from eager execution: ' + diffs[0])
    return fails


def oracle(prog, rg, out, qres):
    fails = against_ledger(prog, rg, out)
    if not fails:
        return [], []
    # known finding D13: a recipe's fill_to on part of a plate fills every well of that plate.  The finding is exactly that
    # behaviour: the outcome is attributed to it only if bake equals the eager execution in which each such step addresses the
    # whole plate (so that wells, plates and containers downstream of the over-filled wells are accounted for, and nothing else is)
    shape = {o['name']: (o['rows'], o['cols']) for o in prog['objects'] if o['t'] == 'p'}
    whole = lambda n: {'rect': [list(range(shape[n][0])), list(range(shape[n][1]))]}
    d13_steps = [i for i, st in enumerate(prog['steps']) if st['op'] == 'fill' and 'p' in st['t'] and st['t']['r'] != whole(st['t']['p'])]
    if d13_steps:
        import copy
        p13 = copy.deepcopy(prog)
        for i in d13_steps:
            p13['steps'][i]['t']['r'] = whole(p13['steps'][i]['t']['p'])
        if not against_ledger(prog, recipes.Replayed(p13), out):
            return [], [('D13-slice-fill', 'recipe fill_to on part of a plate fills every well of the plate')]
    return fails, []


def nontrivial(prog, rg, out, qres):
    names = [recipes.touched_names(s) for s in prog['steps']]
    shared = any(names[i] & names[j] for i in range(len(names)) for j in range(i + 1, len(names)))
    if not shared:
        return []
    return [(tuple(sorted(s['op'] for s in prog['steps'])), len(prog['objects']), rg.failed[0] if rg.failed else None)]


def run(chk, gate, status):
    n = 40 if chk.tier == 'quick' else 400
    hi = 10 if chk.tier == 'quick' else 14     # exact rationals grow with the number of steps: more recipes, not longer ones
    cases = []
    for i in range(n):
        rng = random.Random(chk.seed * 100003 + 80000 + i)
        cases.append((recipes.RecipeGen(rng, rng.randint(3, hi), allow_d13=(i % 8 == 7), allow_rename=True), []))
    cases = [(recipes.Replayed(p), []) for p in recipes.twin_lot_recipes() + recipes.directed_recipes()] + cases
    chk.assumptions += ["dilute(..., new_name=...) is generated; object names are not compared, only the keys of the returned dictionary and the contents",
                        "fill_to on a strict sub-region of a plate is generated in 1/8 of the programs and reported as known finding D13 when it reproduces"]
    cov = recipes.check(chk, 'C08', cases, oracle, RULE, nontrivial)
    cov['recipes_under_configuration_variants'] = recipes.variants(chk, cases, oracle, 'C08v', limit=8 if chk.tier == 'quick' else 60)
    nod13 = [c for c in cases if not any(st['op'] == 'fill' and 'p' in st['t'] for st in c[0].steps)]
    cov['recipes_under_default_densities_inf'] = recipes.density_variant(chk, nod13, against_ledger, 'C08v', limit=10 if chk.tier == 'quick' else 60)
    return cov


def replay(path):
    return recipes.replay(path, oracle)
