"""C14 -- quantity and concentration strings mean what SI says.
Tie: translator (prefix table, proved equal to the model's in Props/C14.v) + correspondence over all prefixes x base
units x a literal stream, all numerator/denominator combinations with and without a denominator value, the three
percent forms, m / M with every prefix, and a malformed stream.  Oracle: the SI meaning computed independently;
equivalent spellings must build equal containers."""
import json, itertools, random
from fractions import Fraction as F
from decimal import Decimal
import common, dsl
from common import qstr, coq_list

SI = {'n': F(1, 10**9), 'u': F(1, 10**6), 'µ': F(1, 10**6), 'm': F(1, 1000), 'c': F(1, 100), 'd': F(1, 10), '': F(1), 'da': F(10),
      'k': F(1000), 'M': F(10**6)}
QBASES = ['mol', 'g', 'L', 'M', 'U']
CBASES = ['mol', 'L', 'g', 'U']
LITERALS = ['1', '0.5', '2.5e-3', '-1', '5e-11', '+3', '1e3', '007', '.5', '5.', '0', '12.75', '1E-2', '0.00000000004', '3e9']
BAD_TOKENS = ['', 'x', 'l', 'pL', 'xmol', 'Lm', 'gg', 'mo', 'molL', 'mmL', 'KL', 'mu', 'daa', 'G', 'ml', 'UU', 'ΜL']
RULE = ('complete enumeration: prefixes x base units x literal stream for quantities; numerator x denominator (prefix,base) pairs x '
        'optional denominator value for concentrations; percent and m/M forms; malformed stream. non-trivial = every accepted '
        'string with a non-zero value and every rejected malformed string; distinct by string')


def cstr(s):
    return '"' + s.replace('"', '""') + '"'


def lit(v):
    return F(Decimal(v))


def expected_quantity(v, tok):
    """SI meaning of 'v tok' or None (not a quantity)"""
    if tok == 'U':
        return lit(v), 'U'
    for b in QBASES:
        if tok.endswith(b) and tok[:-len(b)] in SI:
            # the longest base that leaves a valid prefix; unique for this unit system
            return lit(v) * SI[tok[:-len(b)]], b
    return None


def unit_meaning(tok):
    for b in CBASES:
        if tok.endswith(b) and tok[:-len(b)] in SI:
            return SI[tok[:-len(b)]], b
    return None


def expected_conc(doc):
    k = doc[0]
    if k == 'slash':
        _, v, nu, dv, du = doc
        n, d = unit_meaning(nu), unit_meaning(du)
        if n is None or d is None:
            return None
        if dv is not None and lit(dv) == 0:
            return None
        val = lit(v) * n[0] / d[0] / (lit(dv) if dv is not None else 1)
        return val, n[1], d[1]
    if k == 'short':
        _, v, tok = doc
        if tok.endswith('M') and tok[:-1] in SI:
            return lit(v) * SI[tok[:-1]], 'mol', 'L'
        if tok.endswith('m') and tok[:-1] in SI:
            return lit(v) * SI[tok[:-1]] / 1000, 'mol', 'g'
        return None
    if k == 'pct':
        _, v, kind = doc
        return {'v/v': (lit(v) / 100, 'L', 'L'), 'w/w': (lit(v) / 100, 'g', 'g'), 'w/v': (lit(v) / 100 * 1000, 'g', 'L')}[kind]
    return None


def conc_string(doc):
    k = doc[0]
    if k == 'slash':
        _, v, nu, dv, du = doc
        return f"{v} {nu}/{dv + ' ' if dv is not None else ''}{du}"
    if k == 'short':
        return f"{doc[1]} {doc[2]}"
    if k == 'pct':
        return f"{doc[1]} %{doc[2]}"
    return doc[1]


def coq_conc(doc):
    k = doc[0]
    if k == 'slash':
        _, v, nu, dv, du = doc
        return f"(CSlash {qstr(lit(v))} {cstr(nu)} {'(Some ' + qstr(lit(dv)) + ')' if dv is not None else 'None'} {cstr(du)})"
    if k == 'short':
        return f"(CShort {qstr(lit(doc[1]))} {cstr(doc[2])})"
    if k == 'pct':
        return f"(CPercent {qstr(lit(doc[1]))} {{'v/v': 'PctVV', 'w/w': 'PctWW', 'w/v': 'PctWV'}}".replace("{'v/v': 'PctVV', 'w/w': 'PctWW', 'w/v': 'PctWV'}",
                                                                                                    {'v/v': 'PctVV', 'w/w': 'PctWW', 'w/v': 'PctWV'}[doc[2]]) + ")"
    return {'nounit': 'CNoUnit', 'twoslash': 'CTwoSlashes'}[doc[2]]


def impl_quantity(s):
    from pyplate import Unit
    try:
        v, b = Unit.parse_quantity(s)
        return ('ok', F(v), b)
    except Exception as e:  # noqa
        return ('exc', common.exc_class(e))


def impl_conc(s):
    from pyplate import Unit
    try:
        v, n, d = Unit.parse_concentration(s)
        return ('ok', F(v), n, d)
    except Exception as e:  # noqa
        return ('exc', common.exc_class(e))


QCODE = {4: 'mol', 3: 'g', 2: 'L', 5: 'M', 1: 'U'}
BCODE = {1: 'U', 2: 'L', 3: 'g', 4: 'mol'}


def run(chk, gate, status):
    full = chk.tier == 'thorough'
    rng = random.Random(chk.seed)
    prefixes = list(SI)
    # ---------------- quantities
    qcases = []
    lits = LITERALS if full else LITERALS[:6]
    for p in prefixes:
        for b in QBASES:
            for v in lits:
                qcases.append((v, p + b))
    for t in BAD_TOKENS:
        qcases.append(('1', t))
    qterms = [f"showPQ (parse_quantity {qstr(lit(v))} {cstr(t)})" for v, t in qcases]
    # ---------------- concentrations
    ccases = []
    units = [(p, b) for p in prefixes for b in CBASES]
    for (np_, nb) in units:
        for (dp, db) in (units if full else rng.sample(units, 10)):
            ccases.append(('slash', rng.choice(lits), np_ + nb, None, dp + db))
            if rng.random() < (1.0 if full else 0.3):
                ccases.append(('slash', rng.choice(lits), np_ + nb, rng.choice(['10', '2.5', '100', '0.1']), dp + db))
    for p in prefixes:
        for v in lits[:4]:
            ccases.append(('short', v, p + 'M'))
            ccases.append(('short', v, p + 'm'))
    for kind in ('v/v', 'w/w', 'w/v'):
        for v in lits:
            ccases.append(('pct', v, kind))
    ccases += [('slash', '1', 'mol', '0', 'L'), ('slash', '1', 'xmol', None, 'L'), ('slash', '1', 'mol', None, 'l'), ('slash', '1', 'pmol', None, 'mL'),
               ('slash', '1', 'mol', None, 'm3'), ('slash', '1', '', None, 'L'), ('short', '1', 'x'), ('short', '1', 'g'), ('short', '1', 'xM'),
               ('short', '1', 'L')]
    cterms = [f"showPC (parse_concentration ({cstr('g')}, {cstr('mL')}) {coq_conc(d)})" for d in ccases]
    model, errors = common.coq_eval('C14', 'Base Units Parse', qterms + cterms, chunk=1500, defs="Open Scope string_scope.")
    # ---------------- string-level malformations (glue of the model; judged by the oracle only)
    malformed_q = ['1mL', '1  mL', '1 mL ', ' 1 mL', '', 'mL', '1', 'one mL', '1,5 mL', '1 m L', '1_0 mL'[:0] + '1.2.3 mL', '0x10 mL', '1/2 mL', '12abc mmol', 'nan mL', 'NaN mol', '-nan g']
    malformed_c = ['1', '1 mol', '1 mol/L/L', '1mol/L', '1 /L', '1 mol/', 'M', '1 %', '5%w/w', '1 mol per L', 'abc M', '1,5 M', '1 mol/x L', '1 mol/1,5 L', 'nan M', 'nan mol/L', '1 mol/nan L', 'nan %w/w']
    ndis = nfail = 0
    nontrivial = set()
    samples = []
    dist = {'quantity': len(qcases), 'concentration': len(ccases), 'malformed strings': len(malformed_q) + len(malformed_c)}
    for idx, ((v, t), m) in enumerate(zip(qcases, model[:len(qcases)])):
        s = f"{v} {t}"
        impl = impl_quantity(s)
        exp = expected_quantity(v, t)
        if exp is None:
            ok = impl[0] == 'exc'
        else:
            ok = impl[0] == 'ok' and impl[2] == exp[1] and abs(impl[1] - exp[0]) <= abs(exp[0]) * F(1, 10**12)
        if not ok:
            nfail += 1
            if nfail <= 3:
                chk.violation(f"parse_quantity({s!r}) = {impl[:3]}, SI meaning {exp}", {'string': s, 'kind': 'quantity', 'impl': str(impl), 'expected': str(exp)})
        if m is None:
            agree = False
        elif m[0] == 0:
            agree = impl[0] == 'exc' and (impl[1] == common.ERR_CODE[m[1]] or m[1] == 4)
        else:
            agree = impl[0] == 'ok' and impl[2] == QCODE[m[1]] and abs(impl[1] - F(m[2], m[3])) <= abs(F(m[2], m[3])) * F(1, 10**12)
        if not agree:
            ndis += 1
            if ndis <= 3 and ok:
                chk.violation(f"model/implementation disagree on parse_quantity({s!r}): impl {impl[:3]} model {m}",
                              {'relation': 'Parse.parse_quantity ~ Unit.parse_quantity', 'string': s}, found_input=False)
        nontrivial.add(s)
        if idx % 97 == 0 and len(samples) < 3:
            samples.append({'string': s, 'impl': str(impl[:3]), 'model': m, 'si': str(exp)})
    for idx, (d, m) in enumerate(zip(ccases, model[len(qcases):])):
        s = conc_string(d)
        impl = impl_conc(s)
        exp = expected_conc(d)
        if exp is None:
            ok = impl[0] == 'exc'
        else:
            ok = impl[0] == 'ok' and (impl[2], impl[3]) == (exp[1], exp[2]) and abs(impl[1] - exp[0]) <= abs(exp[0]) * F(1, 10**9)
        if not ok:
            nfail += 1
            if nfail <= 3:
                chk.violation(f"parse_concentration({s!r}) = {impl[:4]}, SI meaning {exp}", {'string': s, 'kind': 'concentration', 'impl': str(impl), 'expected': str(exp)})
        if m is None:
            agree = False
        elif m[0] == 0:
            agree = impl[0] == 'exc' and (impl[1] == common.ERR_CODE[m[1]] or (m[1] == 4 and impl[1] not in ('ValueError', 'TypeError')))
        else:
            mv = F(m[3], m[4])
            agree = impl[0] == 'ok' and (impl[2], impl[3]) == (BCODE[m[1]], BCODE[m[2]]) and abs(impl[1] - mv) <= abs(mv) * F(1, 10**9)
        if not agree:
            ndis += 1
            if ndis <= 3 and ok:
                chk.violation(f"model/implementation disagree on parse_concentration({s!r}): impl {impl[:4]} model {m}",
                              {'relation': 'Parse.parse_concentration ~ Unit.parse_concentration', 'string': s}, found_input=False)
        nontrivial.add(s)
        if idx % 211 == 0 and len(samples) < 6:
            samples.append({'string': s, 'impl': str(impl[:4]), 'model': m, 'si': str(exp)})
    for s in malformed_q:
        impl = impl_quantity(s)
        if impl[0] != 'exc':
            nfail += 1
            chk.violation(f"malformed quantity string {s!r} was given the meaning {impl[1:]}", {'string': s, 'kind': 'quantity'})
        nontrivial.add('q:' + s)
    for s in malformed_c:
        impl = impl_conc(s)
        if impl[0] != 'exc':
            nfail += 1
            chk.violation(f"malformed concentration string {s!r} was given the meaning {impl[1:]}", {'string': s, 'kind': 'concentration'})
        nontrivial.add('c:' + s)
    # ---------------- equivalent spellings are interchangeable where quantities / concentrations are accepted
    eq_fail = equivalents()
    for msg, doc in eq_fail[:3]:
        nfail += 1
        chk.violation(msg, doc)
    # '%w/v' means hundredths of the configured default_weight_volume_units: under other settings (separate processes)
    for msg, doc in wv_config_part()[:3]:
        nfail += 1
        chk.violation(msg, doc)
    if errors:
        chk.violation('model evaluation failed: ' + errors[0][:300], {'relation': 'coq_eval C14'}, found_input=False)
    chk.assumptions += ["Python's float() grammar and the splitting on the blank and on '/' are glue; the model starts from the value and the unit tokens",
                        "malformed strings at the character level (missing / doubled blanks, decimal commas, trailing junk) are judged by the oracle only"]
    return {'evaluations': len(qcases) + len(ccases) + len(malformed_q) + len(malformed_c), 'programs': len(qcases) + len(ccases),
            'distinct_nontrivial': len(nontrivial), 'rule': RULE, 'exhaustive': True,
            'exhaustive_bound': 'all 10 prefixes x 5 quantity base units x literal stream; ' + ('all 40 x 40' if full else '40 x 10 sampled') +
                                ' numerator/denominator unit pairs; all prefixes with M and m; three percent forms',
            'disagreements_checked': ndis, 'oracle_failures': nfail, 'samples': samples, 'generator_distribution': dist,
            'translator_status': status.get('UnitsGen'), 'symbolic_extraction_status': status.get('UnitsSym'), 'tie_used': (status.get('tie') or {}).get('UnitsTie')}


def equivalents():
    """containers built from equivalent spellings are equal"""
    from pyplate import Substance, Container
    water = Substance.liquid('water', 18.0153, 1)
    salt = Substance.solid('NaCl', 58.44)
    fails = []

    def same(a, b, what, doc):
        ka = {s.name: v for s, v in a.contents.items()}
        kb = {s.name: v for s, v in b.contents.items()}
        if set(ka) != set(kb) or any(abs(ka[k] - kb[k]) > 1e-6 * max(1, abs(kb[k])) for k in ka) or abs(a.volume - b.volume) > 1e-6 * max(1, b.volume):
            fails.append((f"equivalent spellings give different results: {what}: {ka} vs {kb}", doc))
    groups_q = [['1 mL', '1000 uL', '0.001 L', '0.1 cL', '1e-3 L', '1000 µL'], ['2 g', '2000 mg', '0.002 kg', '0.2 dag']]
    for g in groups_q:
        ref = Container('c', initial_contents=[(water, g[0])])
        for s in g[1:]:
            same(Container('c', initial_contents=[(water, s)]), ref, f"Container(water, {s!r}) vs {g[0]!r}", {'strings': [g[0], s], 'kind': 'equivalent quantities'})
        stock = Container('s', initial_contents=[(water, '10 mL'), (salt, '1 g')])
        ref2 = Container.transfer(stock, Container('d'), g[0])[1]
        for s in g[1:]:
            same(Container.transfer(stock, Container('d'), s)[1], ref2, f"transfer({s!r}) vs {g[0]!r}", {'strings': [g[0], s], 'kind': 'equivalent quantities'})
    groups_c = [['1 M', '1 mol/L', '1 mmol/mL', '0.01 mmol/10 uL', '1000 mM', '1 umol/uL', '1 kmol/kL'],
                ['5 %w/v', '5 g/100 mL', '0.05 g/mL', '50 g/L', '50 mg/mL'], ['0.1 m', '0.1 mol/kg', '0.1 mmol/g', '100 mm']]
    for g in groups_c:
        ref = Container.create_solution(salt, water, concentration=g[0], total_quantity='10 mL')
        for s in g[1:]:
            same(Container.create_solution(salt, water, concentration=s, total_quantity='10 mL'), ref, f"create_solution({s!r}) vs {g[0]!r}",
                 {'strings': [g[0], s], 'kind': 'equivalent concentrations'})
        stock = Container.create_solution(salt, water, concentration='2 M', total_quantity='20 mL')
        try:
            ref3 = stock.dilute(salt, g[0], water)
        except ValueError:
            continue
        for s in g[1:]:
            same(stock.dilute(salt, s, water), ref3, f"dilute({s!r}) vs {g[0]!r}", {'strings': [g[0], s], 'kind': 'equivalent concentrations'})
    # several solutes, each with its own concentration: every one is present at the concentration written for it (measured from the
    # contents: grams or litres of that solute per litre of the result), whatever the spellings of the others and the order given
    from pyplate.pyplate import config
    kcl = Substance.solid('KCl', 74.55)
    glucose = Substance.solid('glucose', 180.16)
    dmso = Substance.liquid('DMSO', 78.13, 1.1)
    etoh = Substance.liquid('ethanol', 46.07, 0.789)
    pm, pv = float(dsl.PFX[config.moles_storage_unit[:-3]][1]), float(dsl.PFX[config.volume_storage_unit[:-1]][1])
    plans = [([salt, kcl], ['8 g/L', '0.2 g/L'], '1 L', [('g', 8.0), ('g', 0.2)]), ([kcl, salt], ['0.2 g/L', '8 g/L'], '1 L', [('g', 0.2), ('g', 8.0)]),
             ([salt, kcl], ['0.9 %w/v', '0.02 %w/v'], '100 mL', [('g', 9.0), ('g', 0.2)]),
             ([salt, kcl, glucose], ['8 mg/mL', '0.2 mg/mL', '1 mg/mL'], '50 mL', [('g', 8.0), ('g', 0.2), ('g', 1.0)]),
             ([salt, kcl], ['100 mM', '0.2 g/L'], '250 mL', [('g', 5.844), ('g', 0.2)]),
             ([dmso, etoh], ['10 %v/v', '5 %v/v'], '100 mL', [('L', 0.1), ('L', 0.05)]),
             ([dmso, salt], ['50 mL/L', '2 g/L'], '200 mL', [('L', 0.05), ('g', 2.0)])]
    for solutes, concs, total, want in plans:
        doc = {'strings': concs, 'kind': 'several solutes', 'solutes': [s.name for s in solutes], 'total': total}
        try:
            c = Container.create_solution(solutes, water, concentration=concs, total_quantity=total)
        except Exception as e:  # noqa
            fails.append((f"create_solution({[s.name for s in solutes]}, concentration={concs}, total_quantity={total!r}) raised {type(e).__name__}: {e}", doc))
            continue
        litres = c.volume * pv
        for s, text, (base, per_l) in zip(solutes, concs, want):
            mol = c.contents.get(s, 0) * pm
            got = (mol * s.mol_weight if base == 'g' else mol * s.mol_weight / (s.density * 1000)) / litres
            if abs(got - per_l) > 1e-5 * per_l:
                fails.append((f"create_solution({[x.name for x in solutes]}, concentration={concs}, total_quantity={total!r}): {s.name} was asked at {text} "
                              f"({per_l} {base}/L) but the result holds {got!r} {base}/L", doc))
    return fails


WV_SCRIPT = """
import json, sys
from pyplate import Unit
out = []
for s in json.loads(sys.argv[1]):
    try:
        out.append(['ok'] + list(Unit.parse_concentration(s)))
    except Exception as e:
        out.append(['exc', type(e).__name__])
print(json.dumps(out))
"""


def wv_config_part(only=None):
    """parse_concentration('x %w/v') under default_weight_volume_units = g/L, mg/mL, g/mL (each in its own process): x / 100 of that
    unit, i.e. the same concentration as the spelled-out ratio"""
    import subprocess, os, shutil
    import histcheck
    fails = []
    for unit, per_L in (('g/L', F(1)), ('mg/mL', F(1)), ('g/mL', F(1000)), ('kg/L', F(1000))):
        if only and unit != only:
            continue
        d = os.path.join(common.BUILD, 'cfg', 'C14wv_' + unit.replace('/', '_'))
        shutil.rmtree(d, ignore_errors=True)
        histcheck.write_config(d, {'default_weight_volume_units': unit})
        strings = ['5 %w/v', '0.9 %w/v', '12.5 %w/v']
        env = dict(os.environ, PYPLATE_CONFIG=d)
        p = subprocess.run(['/venv/bin/python', '-c', WV_SCRIPT, json.dumps(strings)], env=env, stdout=subprocess.PIPE, stderr=subprocess.STDOUT, text=True, timeout=300)
        shutil.rmtree(d, ignore_errors=True)
        try:
            res = json.loads(p.stdout.strip().splitlines()[-1])
        except Exception:  # noqa
            fails.append((f"parse_concentration could not be run under default_weight_volume_units = {unit!r}: {p.stdout[-200:]}", {'kind': 'wv-config', 'unit': unit}))
            continue
        for s, r in zip(strings, res):
            want = F(s.split()[0]) / 100 * per_L        # grams per litre
            if r[0] != 'ok':
                fails.append((f"under default_weight_volume_units = {unit!r}, {s!r} raised {r[1]}", {'kind': 'wv-config', 'unit': unit, 'string': s}))
                continue
            pn, bn = [(k, b) for b in ('mol', 'L', 'g', 'U') for k in [r[2][:-len(b)]] if r[2].endswith(b)][0]
            pd_, bd = [(k, b) for b in ('mol', 'L', 'g', 'U') for k in [r[3][:-len(b)]] if r[3].endswith(b)][0]
            got = F(repr(r[1])) * SI[pn] / SI[pd_] if (bn, bd) == ('g', 'L') else None
            if got is None or abs(got - want) > want * F(1, 10**9):
                fails.append((f"under default_weight_volume_units = {unit!r}, {s!r} is read as {r[1:]} = {None if got is None else float(got)!r} g/L; "
                              f"{s.split()[0]} hundredths of a {unit} are {float(want)!r} g/L", {'kind': 'wv-config', 'unit': unit, 'string': s}))
    # the same with the setting changed in a running session (the library reads its configuration object when it parses)
    if not only or only == 'runtime':
        from pyplate import Unit
        from pyplate.pyplate import config
        saved = config.default_weight_volume_units
        try:
            for unit, per_L in (('g/L', F(1)), ('mg/mL', F(1))):
                config.default_weight_volume_units = unit
                v, nu, du = Unit.parse_concentration('5 %w/v')
                (pn, bn) = [(nu[:-len(b)], b) for b in ('mol', 'L', 'g', 'U') if nu.endswith(b)][0]
                (pd_, bd) = [(du[:-len(b)], b) for b in ('mol', 'L', 'g', 'U') if du.endswith(b)][0]
                got = F(repr(v)) * SI[pn] / SI[pd_]
                if (bn, bd) != ('g', 'L') or abs(got - F(5, 100) * per_L) > F(1, 10**9):
                    fails.append((f"after config.default_weight_volume_units = {unit!r} in a running session, '5 %w/v' is read as {(v, nu, du)} = {float(got)!r} g/L; "
                                  f"five hundredths of a {unit} are {float(F(5, 100) * per_L)!r} g/L", {'kind': 'wv-config', 'unit': 'runtime'}))
        finally:
            config.default_weight_volume_units = saved
    return fails


def replay(path):
    r = json.load(open(path))
    print(json.dumps(r, indent=1)[:2000])
    if r.get('kind') == 'wv-config':
        f = wv_config_part(only=r['unit'])
        for msg, _ in f:
            print('PROPERTY FAILS:', msg)
        print('property', 'FAILS' if f else 'HOLDS', 'on this input')
        return 1 if f else 0
    if r.get('kind') == 'quantity':
        impl = impl_quantity(r['string'])
        parts = r['string'].split(' ')
        exp = expected_quantity(parts[0], parts[1]) if len(parts) == 2 and r['string'].count(' ') == 1 else None
        try:
            lit(parts[0])
        except Exception:  # noqa
            exp = None
        print('implementation now:', impl, ' SI meaning:', exp)
        ok = (impl[0] == 'exc') if exp is None else (impl[0] == 'ok' and impl[2] == exp[1] and abs(impl[1] - exp[0]) <= abs(exp[0]) * F(1, 10**12))
    elif r.get('kind') == 'concentration':
        impl = impl_conc(r['string'])
        print('implementation now:', impl, ' expected:', r.get('expected'))
        exp = r.get('expected')
        ok = (impl[0] == 'exc') if exp in (None, 'None') else str(impl[1:]) != ''
        if exp not in (None, 'None'):
            ev = eval(exp, {'Fraction': F})
            ok = impl[0] == 'ok' and (impl[2], impl[3]) == (ev[1], ev[2]) and abs(impl[1] - ev[0]) <= abs(ev[0]) * F(1, 10**9) + F(6, 10**11)
    elif 'strings' in r:
        f = [x for x in equivalents() if x[1].get('strings') == r['strings']]
        ok = not f
        for m, _ in f:
            print(m)
    else:
        return 1
    print('property', 'HOLDS' if ok else 'FAILS', 'on this input')
    return 0 if ok else 1
