"""C12 -- create_solution_from dilutes a stock as requested and conserves material.
Tie: correspondence (Container.create_solution_from vs Solve.create_solution_from / _c, exact 2x2 solve in Coq).
Oracle: the new solution's total in the quantity unit and the solute's concentration in the requested unit, read back
with exact fractions; the new solution is a uniform aliquot of the source (and of the solvent container) plus pure
solvent; residuals + new solution = inputs + added pure solvent, per substance; unreachable targets raise ValueError."""
import random
from fractions import Fraction as F
import common, dsl, gen, histcheck, oracles
from props import C05

RULE = ('non-trivial = accepted dilution of a multi-component stock whose quantity, concentration and conservation were read back, '
        'or a refusal of a target above the stock / a demand exceeding it; distinct by (solvent form, concentration form, '
        'quantity unit, kinds in the stock, accepted)')
FORMS = [('mol', 'L'), ('mmol', 'L'), ('g', 'L'), ('mg', 'mL'), ('g', 'g'), ('mol', 'mol'), ('mol', 'kg'), ('mmol', 'g'), ('g', 'mol')]


def oracle(prog, obs, impl):
    fails = []
    subs = prog['subs']
    byid = {s['id']: s for s in subs}
    tol = F(1, 10**5)     # the library rounds the stock's solute to 1e-10 mol and volumes to 1e-10 mL before solving
    for i, op, o, dumps in oracles.walk(prog, obs):
        if op['op'] not in ('solfrom', 'solfromc'):
            continue
        src = dumps.get(op['src'])
        if src is None:
            continue
        tv, nb, db = dsl.conc_parse(op['c'])
        stock = C05_conc(subs, src, op['solute'], nb, db)
        if not o['ok']:
            if op.get('expect') == 'feasible':
                fails.append((i, f"a reachable dilution was refused: {o['exc']} {o.get('msg')}"))
            continue
        out = dict(o['out'])
        new, rest = out[op['out']], out[op['osrc']]
        q = op['q']
        got = histcheck.measure(subs, new, q['b'])
        want = dsl.qty_val(q)
        if abs(got - want) > abs(want) * tol:
            fails.append((i, f"requested {dsl.qty_str(q)}, the new solution holds {float(got)!r} {q['b']}"))
        gc = C05_conc(subs, new, op['solute'], nb, db)
        if gc is None or abs(gc - tv) > abs(tv) * tol + min(F(2, 10**10), abs(tv) / 1000):      # (nano-scale targets: to a part in a thousand)
            fails.append((i, f"requested {dsl.conc_str(op['c'])}, the new solution has {float(gc) if gc is not None else None!r} {nb}/{db}"))
        # conservation and aliquots
        inputs = [src]
        outputs = [new, rest]
        pure = None
        if op['op'] == 'solfromc':
            inputs.append(dumps[op['solventv']])
            outputs.append(out[op['osolv']])
        else:
            pure = op['solvent']
        for s in set().union(*[set(d['cont']) for d in inputs + outputs]):
            a = sum((d['cont'].get(s, F(0)) for d in inputs), F(0))
            b = sum((d['cont'].get(s, F(0)) for d in outputs), F(0))
            if s == pure:
                if b < a - F(1, 10**6):
                    fails.append((i, f"solvent {s}: {float(a)!r} in the inputs, {float(b)!r} in the outputs"))
            elif abs(a - b) > abs(a) * F(1, 10**8) + F(1, 10**6):
                fails.append((i, f"substance {s} is not conserved: {float(a)!r} in the inputs, {float(b)!r} in residuals + new solution"))
        # the source's contribution is a uniform aliquot
        fr = [(x - rest['cont'].get(s, F(0))) / x for s, x in src['cont'].items() if x > F(1, 10**3)]
        if fr and max(fr) - min(fr) > F(1, 10**6):
            fails.append((i, f"what left the source is not a uniform aliquot: fractions {[float(x) for x in fr]}"))
        for d in outputs:
            for s, x in d['cont'].items():
                if x < 0:
                    fails.append((i, f"negative amount of substance {s} in an output"))
        if stock is not None and tv > stock * (1 + F(1, 10**3)) and op['op'] == 'solfrom':
            fails.append((i, f"target {float(tv)!r} above the stock's {float(stock)!r} {nb}/{db} was accepted"))
    for i, (op, o) in enumerate(zip(prog['ops'], obs)):
        if op.get('expect') == 'infeasible' and not o.get('skipped') and (o['ok'] or o['exc'] not in ('ValueError', 'LinAlgError')):
            fails.append((i, f"{op.get('why')}: {'accepted' if o['ok'] else 'raised ' + o['exc'] + ' instead of ValueError'}"))
    return fails


def C05_conc(subs, dump, sid, nb, db):
    try:
        return oracles.conc_def(subs, dump, sid, 'M' if (nb, db) == ('mol', 'L') else f"{nb}/{db}")
    except ZeroDivisionError:
        return None


def make_cases(chk):
    n = 60 if chk.tier == 'quick' else 600
    gens = []
    for i in range(n):
        rng = random.Random(chk.seed * 100003 + 120000 + i)
        g = gen.Gen(rng, nsubs=rng.randint(4, 6))
        kinds = {s['id']: s['kind'] for s in g.subs}
        liquids = [s['id'] for s in g.subs if s['kind'] == 'Liquid']
        others = [s['id'] for s in g.subs if s['kind'] != 'Liquid']
        # stocks: a solid or liquid solute in a liquid, possibly with further components (enzymes as bystanders)
        stocks = []
        for _ in range(rng.randint(1, 2)):
            solv = rng.choice(liquids)
            pool = [s for s in g.subs if s['id'] != solv and s['kind'] != 'Enzyme']
            if not pool:
                continue
            solute = rng.choice(pool)['id']
            init = [(solv, gen.pick_qty(rng, rng.uniform(0.02, 0.08), 'L', sig=2))]
            init.append((solute, gen.pick_qty(rng, rng.uniform(0.005, 0.05), 'mol', sig=2)))
            for extra in rng.sample([s for s in g.subs if s['id'] not in (solv, solute)], rng.choice([0, 0, 1, 2])):
                if extra['kind'] == 'Enzyme':
                    init.append((extra['id'], gen.pick_qty(rng, 2.0 * float(extra['dens']), 'U', sig=2)))
                elif extra['kind'] == 'Solid':
                    init.append((extra['id'], gen.pick_qty(rng, 0.4, 'g', sig=2)))
                else:
                    init.append((extra['id'], gen.pick_qty(rng, 0.005, 'L', sig=2)))
            op = {'op': 'newc', 'out': g.fresh(), 'name': g.name(), 'init': init}
            if g.emit(op)['ok']:
                g.containers.append(op['out'])
                stocks.append((op['out'], solute, solv))
        if not stocks:
            continue
        # a container that can serve as solvent (may contain some of the solute)
        svc = None
        if rng.random() < 0.5:
            v, solute, solv = stocks[0]
            init = [(solv, gen.pick_qty(rng, 0.05, 'L', sig=2))]
            if rng.random() < 0.5:
                init.append((solute, gen.pick_qty(rng, 0.0005, 'mol', sig=1)))
            op = {'op': 'newc', 'out': g.fresh(), 'name': g.name(), 'init': init}
            if g.emit(op)['ok']:
                svc = op['out']
        for _ in range(rng.randint(2, 4)):
            idx = rng.randrange(len(stocks))
            v, solute, solv = stocks[idx]
            src = g.impl.env[v]
            dump = g.impl.dump(src)
            nu, du = rng.choice(FORMS)
            (np_, nb), (dp, db) = C05.sp(nu), C05.sp(du)
            cur = C05_conc(g.subs, dump, solute, nb, db)
            if not cur:
                continue
            cur_u = cur / dsl.PFX[np_][1] * dsl.PFX[dp][1]
            kind = rng.choice(['ok', 'ok', 'ok', 'high', 'toomuch', 'tiny', 'hair'])
            f = {'ok': rng.choice([0.1, 0.3, 0.6, 0.9]), 'high': rng.choice([1.5, 3]), 'toomuch': 0.8, 'tiny': 0.0005, 'hair': 0.97}[kind]
            doc = {'v': gen.dec(float(cur_u * F(f)), 3), 'np': np_, 'nb': nb, 'dp': dp, 'db': db}
            if (nu, du) == ('mol', 'L') and rng.random() < 0.5:
                doc = {'s': 'M', 'v': doc['v']}
            qu = rng.choice(['L', 'L', 'g', 'mol'])
            have = histcheck.measure(g.subs, dump, qu)
            amount = have * F(rng.choice([0.05, 0.1, 0.2])) if kind != 'toomuch' else have * 3
            if kind in ('tiny', 'hair'):     # sub-microlitre aliquots of stock (tiny) or of solvent (hair)
                qu = 'L'
                amount = F(1, 1000) if kind == 'tiny' else F(25, 10**6)
            q = gen.pick_qty(rng, float(amount), qu, sig=2)
            use_c = svc is not None and rng.random() < 0.4
            solvent_other = rng.choice(liquids)
            op = {'src': v, 'solute': solute, 'c': doc, 'q': q, 'name': g.name(), 'osrc': g.fresh(), 'out': g.fresh()}
            if kind == 'high' and not use_c:
                op.update(expect='infeasible', why='a concentration above the stock')
            if kind == 'toomuch':
                op.update(expect='infeasible', why='a demand exceeding the stock')
            if use_c:
                op.update(op='solfromc', solventv=svc, osolv=g.fresh())
            else:
                op.update(op='solfrom', solvent=solv if rng.random() < 0.7 else solvent_other)
                if op['solvent'] == solute:
                    continue
                if kind in ('ok', 'tiny', 'hair') and op['solvent'] == solv:
                    op['expect'] = 'feasible'
            o = g.emit(op, f"{op['op']}:{nu}/{du}:{qu}:{kind}")
            if o['ok']:
                stocks[idx] = (op['osrc'], solute, solv)
                g.replace(g.containers, v, op['osrc'])
                if use_c:
                    svc = op['osolv']
        gens.append(g)
    return whole_stock_cases(chk) + gen.twin_lot_cases(chk.seed, 'solfrom') + gens


def whole_stock_cases(chk):
    """directed: a dilution that needs exactly the whole stock (and one that needs exactly the whole solvent container): a demand
    that does not exceed the stock is feasible.  Short decimals: 5.844 g NaCl + 94.156 mL water are 100 mL of 1 M."""
    out = []
    q = lambda v, p, b: {'v': v, 'p': p, 'b': b}
    plans = [({'s': 'M', 'v': '0.5'}, q('200', 'm', 'L')), ({'v': '0.25', 'np': '', 'nb': 'mol', 'dp': '', 'db': 'L'}, q('0.4', '', 'L')),
             ({'s': 'M', 'v': '0.8'}, q('125', 'm', 'L'))]
    for i, (conc, total) in enumerate(plans):
        g = gen.Gen(random.Random(chk.seed * 100003 + 125000 + i), nsubs=9)
        op = {'op': 'newc', 'out': g.fresh(), 'name': g.name(), 'init': [(4, q('5.844', '', 'g')), (1, q('94.156', 'm', 'L'))]}
        if not g.emit(op, 'whole-stock:newc')['ok']:
            continue
        op2 = {'op': 'solfrom', 'src': op['out'], 'solute': 4, 'c': conc, 'q': total, 'name': g.name(), 'osrc': g.fresh(), 'out': g.fresh(),
               'solvent': 1, 'expect': 'feasible'}
        g.emit(op2, 'boundary:whole-stock')
        out.append(g)
    # the most common request (mol/L, a volume) with a container as solvent that already holds some of the solute
    for i, (conc, total) in enumerate([({'s': 'M', 'v': '0.5'}, q('50', 'm', 'L')), ({'v': '0.3', 'np': '', 'nb': 'mol', 'dp': '', 'db': 'L'}, q('0.02', '', 'L'))]):
        g = gen.Gen(random.Random(chk.seed * 100003 + 126000 + i), nsubs=9)
        op = {'op': 'newc', 'out': g.fresh(), 'name': g.name(), 'init': [(4, q('5.844', '', 'g')), (1, q('94.156', 'm', 'L'))]}       # 1 M
        ops = {'op': 'newc', 'out': g.fresh(), 'name': g.name(), 'init': [(1, q('200', 'm', 'L')), (4, q('1.1688', '', 'g'))]}       # about 0.1 M saline
        if not (g.emit(op, 'solvent-holds-solute:stock')['ok'] and g.emit(ops, 'solvent-holds-solute:solvent')['ok']):
            continue
        op2 = {'op': 'solfromc', 'src': op['out'], 'solute': 4, 'c': conc, 'q': total, 'name': g.name(), 'osrc': g.fresh(), 'out': g.fresh(),
               'solventv': ops['out'], 'osolv': g.fresh()}
        g.emit(op2, 'solfromc:solvent-holds-solute')
        out.append(g)
    # a nanomolar stock (nanomoles of solute in 100 mL): the request is as reachable as for a molar one
    for i, (conc, total) in enumerate([({'v': '50', 'np': 'n', 'nb': 'mol', 'dp': '', 'db': 'L'}, q('10', 'm', 'L')),
                                       ({'v': '0.2', 'np': 'u', 'nb': 'mol', 'dp': '', 'db': 'L'}, q('5', 'm', 'L'))]):
        g = gen.Gen(random.Random(chk.seed * 100003 + 127000 + i), nsubs=9)
        op = {'op': 'newc', 'out': g.fresh(), 'name': g.name(), 'init': [(1, q('100', 'm', 'L')), (5, q('50', 'n', 'mol'))]}       # 500 nM
        if not g.emit(op, 'nanomolar:stock')['ok']:
            continue
        op2 = {'op': 'solfrom', 'src': op['out'], 'solute': 5, 'c': conc, 'q': total, 'name': g.name(), 'osrc': g.fresh(), 'out': g.fresh(),
               'solvent': 1, 'expect': 'feasible'}
        g.emit(op2, 'solfrom:nanomolar')
        out.append(g)
    # targets written in per cent (w/v is grams per 100 mL, v/v and w/w plain fractions), from a 10 g / 100 mL stock
    for i, (conc, total) in enumerate([({'pct': 'w/v', 'v': '0.5'}, q('100', 'm', 'L')), ({'pct': 'w/w', 'v': '2'}, q('50', '', 'g')),
                                       ({'pct': 'w/v', 'v': '5'}, q('20', 'm', 'L'))]):
        g = gen.Gen(random.Random(chk.seed * 100003 + 128000 + i), nsubs=9)
        op = {'op': 'newc', 'out': g.fresh(), 'name': g.name(), 'init': [(4, q('10', '', 'g')), (1, q('90', 'm', 'L'))]}
        if not g.emit(op, 'percent:stock')['ok']:
            continue
        op2 = {'op': 'solfrom', 'src': op['out'], 'solute': 4, 'c': conc, 'q': total, 'name': g.name(), 'osrc': g.fresh(), 'out': g.fresh(),
               'solvent': 1, 'expect': 'feasible'}
        g.emit(op2, 'solfrom:percent')
        out.append(g)
    # a dilute stock (250 nM) and a per-mass target: nanomoles per kilogram of solution
    for i, (conc, total) in enumerate([({'v': '50', 'np': 'n', 'nb': 'mol', 'dp': 'k', 'db': 'g'}, q('10', '', 'g')),
                                       ({'v': '0.1', 'np': 'u', 'nb': 'mol', 'dp': 'k', 'db': 'g'}, q('4', '', 'g'))]):
        g = gen.Gen(random.Random(chk.seed * 100003 + 129000 + i), nsubs=9)
        op = {'op': 'newc', 'out': g.fresh(), 'name': g.name(), 'init': [(1, q('100', 'm', 'L')), (5, q('25', 'n', 'mol'))]}
        if not g.emit(op, 'nanomolar:stock')['ok']:
            continue
        op2 = {'op': 'solfrom', 'src': op['out'], 'solute': 5, 'c': conc, 'q': total, 'name': g.name(), 'osrc': g.fresh(), 'out': g.fresh(),
               'solvent': 1, 'expect': 'feasible'}
        g.emit(op2, 'nanomolar:per-mass')
        out.append(g)
    return out


def nontrivial(prog, obs):
    keys = []
    kinds = {s['id']: s['kind'][0] for s in prog['subs']}
    for op, o in zip(prog['ops'], obs):
        if op['op'] in ('solfrom', 'solfromc'):
            c = op['c']
            keys.append((op['op'], c.get('s') or c.get('pct') or (c['np'] + c['nb'] + '/' + c['dp'] + c['db']), op['q']['b'], o['ok'], op.get('expect')))
    return keys


def run(chk, gate, status):
    gens = make_cases(chk)
    chk.assumptions += ["stocks hold >= 5 mmol of solute: create_solution_from rounds the stock's solute to 1e-10 mol and its volume to 1e-10 mL, results are exact to ~1e-7 only; read-back tolerance 1e-5",
                        "enzymes occur as bystanders in the stock (enzyme solutes cannot be expressed: the library rejects activity numerators here)"]
    cov = histcheck.run(chk, gens, oracle, 'C12', RULE, nontrivial, rtol=1e-6)
    cov['operations_under_configuration_variants'] = histcheck.variants(chk, gens, oracle, 'C12v', limit=10 if chk.tier == 'quick' else 60)
    return cov


def replay(path):
    return histcheck.replay(path, oracle)
