"""C04 -- values are immutable: operations never modify their arguments, even on failure.
Model: coq/Heap.v (objects as cells of an append-only heap: which object is copied, allocated, written).
Theorems: coq/HeapThm.v (no call writes a cell that existed before it; results are new cells; lifted to histories).
Tie: correspondence -- the same histories over OBJECT variables (containers, plates and persistent slice objects, old
     values reused as arguments, calls that fail part-way) run on the implementation and on Heap.hrun; compared:
     the decision and error class of each call, the values returned, and the identity structure (which variable /
     plate / array / well is the same object as which) of everything reachable from every variable at the end.
Oracle (independent of the model): a structural fingerprint of every object reachable from every variable, taken
     before each call and compared after it -- also when the call raises; identity checks (results are new objects,
     no mutable part shared with an older object; every dict / array / well has one owner).  The same around every
     Recipe call (uses, adding steps, bake -- also a bake that fails at step k) and around later operations on the
     objects a bake returned."""
import json, random, copy as _copy
from fractions import Fraction as F
import common, dsl, gen, recipes, histcheck
from common import qstr

RULE = ('non-trivial = a call (successful or raising) made while at least one older object was reachable and fingerprinted; '
        'distinct by (operation, kinds of the operands, outcome, whether an operand was an old (superseded) value or a reused slice)')
IMPORTS = 'Base Units Contents Container Plate Dilute Solve Heap'


# ----------------------------------------------------------------------------- fingerprints and identity
def fp_substance(s):
    return ('S', s.name, s._type, s.mol_weight, s.density, s.concentration, s.specific_activity)


def fp_container(c):
    return ('C', c.name, tuple((fp_substance(s), float(a).hex()) for s, a in c.contents.items()),
            float(c.volume).hex(), float(c.max_volume).hex(), c.instructions, tuple(sorted(fp_substance(s) for s in c.get_substances())))


def fp_plate(p):
    return ('P', p.name, float(p.max_volume_per_well).hex(), tuple(p.row_names), tuple(p.column_names), p.n_rows, p.n_columns,
            tuple(p.wells.shape), tuple(fp_container(w) for w in p.wells.flatten()))


def fp(o):
    from pyplate import Container, Plate, Substance
    from pyplate.pyplate import PlateSlicer
    if isinstance(o, Container):
        return fp_container(o)
    if isinstance(o, Plate):
        return fp_plate(o)
    if isinstance(o, PlateSlicer):
        return ('L', id(o.plate), fp_plate(o.plate), repr(o.item), repr(o.slices))
    if isinstance(o, Substance):
        return fp_substance(o)
    raise TypeError(type(o))


def parts(o):
    """the mutable objects reachable from o: {id: (kind, object)}"""
    from pyplate import Container, Plate
    from pyplate.pyplate import PlateSlicer
    out = {}
    if isinstance(o, Container):
        out[id(o)] = ('container', o)
        out[id(o.contents)] = ('dict', o.contents)
    elif isinstance(o, Plate):
        out[id(o)] = ('plate', o)
        out[id(o.wells)] = ('array', o.wells)
        for w in o.wells.flatten():
            out.update(parts(w))
    elif isinstance(o, PlateSlicer):
        out[id(o)] = ('slice', o)
        out.update(parts(o.plate))
    return out


def diff_fp(a, b):
    if a[0] != b[0]:
        return 'kind'
    names = {'C': ['kind', 'name', 'contents', 'volume', 'max_volume', 'instructions', 'what get_substances() answers'],
             'P': ['kind', 'name', 'max_volume_per_well', 'row_names', 'column_names', 'n_rows', 'n_columns', 'shape', 'wells'],
             'L': ['kind', 'the plate it points at', 'the wells seen through it', 'item', 'slices'],
             'S': ['kind', 'name', 'type', 'mol_weight', 'density', 'concentration', 'specific_activity']}[a[0]]
    for n, x, y in zip(names, a, b):
        if x != y:
            if n in ('wells', 'the wells seen through it'):
                ws_a, ws_b = (x, y) if n == 'wells' else (x[-1], y[-1])
                for i, (p, q) in enumerate(zip(ws_a, ws_b)):
                    if p != q:
                        return f"well {i}: {diff_fp(p, q)}"
            return n
    return None


class Watch:
    """all objects the user holds; fingerprints before / after a call"""

    def __init__(self):
        self.objs = []      # (label, object); kept alive so that ids stay unique

    def add(self, label, o):
        self.objs.append((label, o))

    def snapshot(self):
        return [fp(o) for _, o in self.objs]

    def changed(self, before):
        out = []
        for (label, o), b in zip(self.objs, before):
            a = fp(o)
            if a != b:
                out.append(f"{label} changed: {diff_fp(b, a)}")
        return out

    def all_parts(self):
        d = {}
        for _, o in self.objs:
            d.update(parts(o))
        return d


def ownership(objs):
    """every dict has one container, every array one plate, every well one slot"""
    from pyplate import Container, Plate
    owner = {}
    bad = []
    seen = set()
    stack = [o for _, o in objs]
    plates = {}
    for o in stack:
        from pyplate.pyplate import PlateSlicer
        if isinstance(o, PlateSlicer):
            o = o.plate
        if isinstance(o, Plate):
            plates[id(o)] = o
    conts = {id(o): o for _, o in objs if isinstance(o, Container)}
    for p in plates.values():
        if owner.setdefault(('array', id(p.wells)), id(p)) != id(p):
            bad.append(f"two plates share one wells array ({p.name})")
        for k, w in enumerate(p.wells.flatten()):
            if owner.setdefault(('well', id(w)), (id(p), k)) != (id(p), k):
                bad.append(f"a well object of plate {p.name} (slot {k}) is also a well of another plate or slot")
            if id(w) in conts:
                bad.append(f"a well object of plate {p.name} is also a container the user holds")
            conts_key = ('dict', id(w.contents))
            if owner.setdefault(conts_key, id(w)) != id(w):
                bad.append(f"two containers share one contents dict (well {k} of {p.name})")
    for c in conts.values():
        if owner.setdefault(('dict', id(c.contents)), id(c)) != id(c):
            bad.append(f"two containers share one contents dict ({c.name})")
    return bad


# ----------------------------------------------------------------------------- executing object-level programs
class HImpl:
    def __init__(self, subs):
        self.d = dsl.Impl(subs)
        self.subs = self.d.subs
        self.vars = []
        self.kinds = []
        self.watch = Watch()
        for k, s in self.subs.items():
            self.watch.add(f"substance {s.name}", s)
        self.recipes = []

    def kind(self, o):
        from pyplate import Container, Plate
        return 'c' if isinstance(o, Container) else 'p' if isinstance(o, Plate) else 's'

    def call(self, op):
        from pyplate import Container, Plate, Recipe
        k = op['op']
        V = self.vars
        if k == 'newc':
            mx = dsl.qty_str(op['max']) if op.get('max') else 'inf L'
            return [Container(f"c{op['name']}", mx, [(self.subs[s], dsl.qty_str(q)) for s, q in op.get('init', [])] or None)]
        if k == 'newp':
            return [Plate(f"p{op['name']}", dsl.qty_str(op['max']), rows=op['rows'], columns=op['cols'])]
        if k == 'slice':
            return [V[op['p']][dsl.py_selector(op['r'])]]
        if k == 'transfer':
            s, d = V[op['s']], V[op['d']]
            if isinstance(d, Container):
                return list(Container.transfer(s, d, dsl.qty_str(op['q'])))
            return list(Plate.transfer(s, d, dsl.qty_str(op['q'])))
        if k == 'remove':
            return [V[op['t']].remove(self.d.what(op['w']))]
        if k == 'fill':
            return [V[op['t']].fill_to(self.subs[op['solvent']], dsl.qty_str(op['q']))]
        if k == 'dilute':
            return [V[op['v']].dilute(self.subs[op['solute']], dsl.conc_str(op['c']), self.subs[op['solvent']])]
        if k == 'solutionc':
            kw = recipes.mode_kwargs(op['mode'])
            return list(Container.create_solution([self.subs[s] for s in op['solutes']], V[op['sv']], f"c{op['name']}", **kw))
        if k == 'solfrom':
            return list(Container.create_solution_from(V[op['src']], self.subs[op['solute']], dsl.conc_str(op['c']),
                                                       self.subs[op['solvent']], dsl.qty_str(op['q']), f"c{op['name']}"))
        if k == 'uses':
            r = Recipe()
            r.uses(V[op['v']])
            self.recipes.append(r)
            return [r.results[V[op['v']].name]]
        if k == 'recipe':
            r = Recipe()
            objs = [V[v] for v in op['uses']]
            r.uses(*objs)
            ref = lambda x: V[x['sl']] if 'sl' in x else objs[x['n']]
            for st in op['steps']:
                if st['op'] == 'transfer':
                    r.transfer(ref(st['src']), ref(st['dst']), dsl.qty_str(st['q']))
                elif st['op'] == 'remove':
                    r.remove(ref(st['t']), self.d.what(st['w']))
                elif st['op'] == 'fill':
                    r.fill_to(ref(st['t']), self.subs[st['solvent']], dsl.qty_str(st['q']))
                elif st['op'] == 'dilute':
                    r.dilute(objs[st['n']], self.subs[st['solute']], dsl.conc_str(st['c']), self.subs[st['solvent']])
            self.recipes.append(r)
            res = r.bake()
            return [res[o.name] for o in objs]
        raise KeyError(k)

    def operands(self, op):
        vs = [op[k] for k in ('s', 'd', 't', 'v', 'p', 'sv', 'src') if isinstance(op.get(k), int)]
        return vs + [v for v in op.get('uses', []) if isinstance(v, int)]

    def observe(self, objs):
        from pyplate import Container, Plate
        asked = set()
        for o in objs:
            try:
                if isinstance(o, Container):
                    o.get_substances(); o.get_volume(); asked |= {'get_substances', 'get_volume'}
                    for s in self.subs.values():
                        try:
                            o.get_concentration(s); asked.add('get_concentration')
                        except Exception:  # noqa
                            pass
                else:
                    o.get_substances(); o.get_volumes(); asked |= {'get_substances', 'get_volumes'}
                    for s in self.subs.values():
                        o.get_moles(s); asked.add('get_moles')
                    if isinstance(o, Plate):
                        o.get_volumes(list(self.subs.values())[0])
            except Exception:  # noqa
                pass
        return ', '.join(sorted(asked))

    def step(self, op):
        """returns (observation, property failures)"""
        before = self.watch.snapshot()
        old_parts = self.watch.all_parts()
        fails = []
        try:
            out = self.call(op)
            obs = {'ok': True}
        except Exception as e:  # noqa
            out = []
            obs = {'ok': False, 'exc': common.exc_class(e), 'msg': str(e)[:120]}
        for t in self.watch.changed(before):
            fails.append(f"{op['op']} ({'returned' if obs['ok'] else 'raised ' + obs['exc']}): {t}")
        if not fails:
            # the read-only questions are public operations too: asked of the operands and results of this call (about every substance
            # of the library, present or not), they leave every object as it was
            mid = self.watch.snapshot()
            mid_out = [fp(o) for o in out]
            asked = self.observe([self.vars[v] for v in self.operands(op) if v < len(self.vars)] + list(out))
            for t in self.watch.changed(mid):
                fails.append(f"read-only observers ({asked}) after {op['op']}: {t}")
            for j, (o, b) in enumerate(zip(out, mid_out)):
                if fp(o) != b:
                    fails.append(f"read-only observers ({asked}) asked of result {j} of {op['op']} changed it: {diff_fp(b, fp(o))}")
        if obs['ok']:
            for j, o in enumerate(out):
                if id(o) in old_parts:
                    fails.append(f"{op['op']}: result {j} is not a new object (it is the {old_parts[id(o)][0]} "
                                 f"{getattr(old_parts[id(o)][1], 'name', '')} that existed before the call)")
                if self.kind(o) != 's':
                    for pid, (kind, po) in parts(o).items():
                        if pid in old_parts and pid != id(o):
                            fails.append(f"{op['op']}: result {j} shares a {kind} with an object that existed before the call")
                            break
            dumps = []
            for o in out:
                self.vars.append(o)
                self.kinds.append(self.kind(o))
                self.watch.add(f"variable {len(self.vars) - 1} ({self.kind(o)}:{getattr(o, 'name', None) or o.plate.name})", o)
                dumps.append({'t': 's'} if self.kind(o) == 's' else self.d.dump(o))
            obs['out'] = dumps
            for t in ownership(self.watch.objs):
                fails.append(f"after {op['op']}: {t}")
        return obs, fails

    def graph(self):
        """first-visit numbering, depth first: the same traversal as Heap.showGraph"""
        seen = {}
        out = []

        def visit(o, depth):
            if id(o) in seen:
                out.append(seen[id(o)])
                return
            seen[id(o)] = len(seen)
            out.append(seen[id(o)])
            if depth == 0:
                return
            for c in children(o):
                visit(c, depth - 1)

        def children(o):
            from pyplate import Plate
            from pyplate.pyplate import PlateSlicer
            import numpy
            if isinstance(o, Plate):
                return [o.wells]
            if isinstance(o, numpy.ndarray):
                return list(o.flatten())
            if isinstance(o, PlateSlicer):
                return [o.plate]
            return []
        for o in self.vars:
            visit(o, 4)
        return out


def run_impl(prog):
    im = HImpl(prog['subs'])
    obs, fails = [], []
    for i, op in enumerate(prog['ops']):
        o, f = im.step(op)
        obs.append(o)
        fails += [(i, t) for t in f]
    return im, obs, fails


# ----------------------------------------------------------------------------- the same program in Gallina
def coq_hop(op):
    k = op['op']
    if k == 'newc':
        mx = f"(Some {dsl.coq_qty(op['max'])})" if op.get('max') else "None"
        init = dsl.coq_list([f"(s{s}, {dsl.coq_qty(q)})" for s, q in op.get('init', [])])
        return f"HNewC {op['name']} {mx} {init}"
    if k == 'newp':
        return f"HNewP {op['name']} {op['rows']} {op['cols']} {dsl.coq_qty(op['max'])}"
    if k == 'slice':
        return f"HSlice {op['p']} {dsl.coq_region(op['r'])}"
    if k == 'transfer':
        return f"HTransfer {op['s']} {op['d']} {dsl.coq_qty(op['q'])}"
    if k == 'remove':
        return f"HRemove {op['t']} {dsl.coq_what(op['w'])}"
    if k == 'fill':
        return f"HFill {op['t']} s{op['solvent']} {dsl.coq_qty(op['q'])}"
    if k == 'dilute':
        return f"HDilute {op['v']} s{op['solute']} {dsl.coq_conc(op['c'])} s{op['solvent']}"
    if k == 'solutionc':
        return f"HSolutionC {op['name']} {dsl.coq_list(['s%d' % s for s in op['solutes']])} {op['sv']} {dsl.coq_mode(op['mode'])}"
    if k == 'solfrom':
        return f"HSolFrom {op['src']} s{op['solute']} {dsl.coq_conc(op['c'])} s{op['solvent']} {dsl.coq_qty(op['q'])} {op['name']}"
    if k == 'uses':
        return f"HUses {op['v']}"
    if k == 'recipe':
        rr = lambda x: f"(HRS {x['sl']} {x['n']})" if 'sl' in x else f"(HRC {x['n']})"
        steps = []
        for st in op['steps']:
            if st['op'] == 'transfer':
                steps.append(f"RTransfer {rr(st['src'])} {rr(st['dst'])} {dsl.coq_qty(st['q'])}")
            elif st['op'] == 'remove':
                steps.append(f"RRemove {rr(st['t'])} {dsl.coq_what(st['w'])}")
            elif st['op'] == 'fill':
                steps.append(f"RFill {rr(st['t'])} s{st['solvent']} {dsl.coq_qty(st['q'])}")
            else:
                steps.append(f"RDilute {st['n']} s{st['solute']} {dsl.coq_conc(st['c'])} s{st['solvent']}")
        return f"HRecipe {dsl.coq_list([str(v) for v in op['uses']])} {dsl.coq_list(steps)}"
    raise KeyError(k)


def to_coq(prog):
    lets = " ".join(f"let s{sd['id']} := {dsl.coq_subst(sd)} in" for sd in prog['subs'])
    ops = dsl.coq_list(["(" + coq_hop(o) + ")%nat" for o in prog['ops']])
    return f"({lets} showHeapRun {dsl.coq_cfg(None)} {ops})"


def decode(ints, nops):
    r = common.Reader(ints)
    obs = []
    for _ in range(nops):
        if r.int() == 0:
            obs.append({'ok': False, 'exc': common.ERR_CODE[r.int()]})
        else:
            n = r.int()
            out = []
            for _ in range(n):
                if r.a[r.i] == 3:
                    r.int()
                    out.append({'t': 's'})
                elif r.a[r.i] == -1:
                    r.int()
                    out.append({'t': '?'})
                else:
                    out.append(dsl.dec_obj(r))
            obs.append({'ok': True, 'out': out})
    assert r.int() == -7
    graph = r.a[r.i:]
    return obs, graph


def compare(iobs, igraph, mobs, mgraph, tol=1.0, rtol=2e-8):
    for i, (a, m) in enumerate(zip(iobs, mobs)):
        if a['ok'] != m['ok']:
            return [(i, f"decision: impl {'ok' if a['ok'] else a['exc'] + ' ' + a.get('msg', '')} / model {'ok' if m['ok'] else m['exc']}")]
        if not a['ok']:
            if not dsl.exc_matches(a['exc'], m['exc']):
                return [(i, f"exception class: impl {a['exc']} model {m['exc']}")]
            continue
        if len(a['out']) != len(m['out']):
            return [(i, "number of results")]
        for j, (x, y) in enumerate(zip(a['out'], m['out'])):
            if x['t'] == 's' or y['t'] == 's':
                if x['t'] != y['t']:
                    return [(i, f"result {j}: kind impl {x['t']} model {y['t']}")]
                continue
            d = dsl.cmp_obj(x, y, F(1e-8) * (i + 1) * F(tol), F(rtol), f"op {i} result {j}")
            if d:
                return [(i, d[0])]
    if igraph != mgraph:
        k = next((k for k, (x, y) in enumerate(zip(igraph, mgraph)) if x != y), min(len(igraph), len(mgraph)))
        return [(len(iobs) - 1, f"identity structure differs at position {k} of the depth-first numbering: impl {igraph[max(0, k - 3):k + 3]} model {mgraph[max(0, k - 3):k + 3]} "
                 "(some object is shared / fresh on one side only)")]
    return []


# ----------------------------------------------------------------------------- generator
class HGen:
    """adaptive: every candidate call is executed for real; quantities are kept clear of capacity / stock boundaries so that
    the exact model and the float implementation take the same decision, while deliberate failures are far beyond them"""

    def __init__(self, rng):
        self.rng = rng
        ids = [1, 2, 4] + rng.sample([3, 5, 8], 1)
        self.subs = [s for s in dsl.LIBRARY if s['id'] in ids]
        self.liquids = [s['id'] for s in self.subs if s['kind'] == 'Liquid']
        self.solids = [s['id'] for s in self.subs if s['kind'] == 'Solid']
        self.im = HImpl(self.subs)
        self.ops, self.obs, self.fails, self.stats, self.keys = [], [], [], {}, set()
        self.names = 0
        self.superseded = set()

    def name(self):
        self.names += 1
        return self.names

    def sid(self, s):
        """the library id of a substance found in a container; by its fields, else by its name (a substance whose fields were altered
        by a call is reported by the watch -- the generator must not stop on it)"""
        k = self.im.d.bykey.get((s.name, s.specific_activity, s.mol_weight, s.density))
        return k if k is not None else self.im.d.byname[s.name]

    def emit(self, op, tag, operands=()):
        n_before = len(self.im.vars)
        o, f = self.im.step(op)
        i = len(self.ops)
        self.ops.append(op)
        self.obs.append(o)
        self.fails += [(i, t) for t in f]
        self.stats[tag + (':ok' if o['ok'] else ':' + o['exc'])] = self.stats.get(tag + (':ok' if o['ok'] else ':' + o['exc']), 0) + 1
        old = any(v in self.superseded for v in operands)
        self.keys.add((op['op'], tuple(self.im.kinds[v] for v in operands), o['ok'] or o['exc'], old))
        if o['ok'] and op['op'] not in ('slice', 'uses', 'newc', 'newp', 'recipe'):
            for v in operands:
                if self.im.kinds[v] != 's':
                    self.superseded.add(v)
        return o, list(range(n_before, len(self.im.vars)))

    def pick(self, kinds, prefer_new=0.6):
        cands = [i for i, k in enumerate(self.im.kinds) if k in kinds]
        if not cands:
            return None
        fresh = [i for i in cands if i not in self.superseded]
        if fresh and self.rng.random() < prefer_new:
            return self.rng.choice(fresh)
        return self.rng.choice(cands)

    def plate_of(self, v):
        o = self.im.vars[v]
        return o if self.im.kinds[v] == 'p' else o.plate

    def cells(self, v):
        """the wells addressed by a plate / slice variable"""
        o = self.im.vars[v]
        if self.im.kinds[v] == 'p':
            return list(o.wells.flatten())
        return list(o.get().flatten())

    def region(self, rows, cols):
        rng = self.rng
        k = rng.random()
        if k < 0.35:
            n = rng.randint(1, min(4, rows * cols))
            cells = rng.sample([(a, b) for a in range(rows) for b in range(cols)], n)
            return {'list': [list(c) for c in cells]}
        r0 = rng.randrange(rows)
        r1 = rng.randint(r0, rows - 1)
        c0 = rng.randrange(cols)
        c1 = rng.randint(c0, cols - 1)
        return {'rect': [list(range(r0, r1 + 1)), list(range(c0, c1 + 1))]}

    def clear(self, x, bound, margin=0.03):
        return abs(x - bound) > margin * max(abs(bound), 1e-9)

    def setup(self):
        rng = self.rng
        for _ in range(rng.randint(2, 3)):
            init = [(rng.choice(self.liquids), gen.pick_qty(rng, rng.uniform(5, 30) / 1000, 'L', sig=2))]
            if rng.random() < 0.7:
                init.append((rng.choice(self.solids), gen.pick_qty(rng, rng.uniform(0.2, 2), 'g', sig=2)))
            mx = gen.pick_qty(rng, rng.choice([0.05, 0.1, 0.25]), 'L', sig=2) if rng.random() < 0.6 else None
            self.emit({'op': 'newc', 'name': self.name(), 'max': mx, 'init': init}, 'newc')
        for _ in range(rng.randint(1, 2)):
            self.emit({'op': 'newp', 'name': self.name(), 'rows': rng.randint(1, 3), 'cols': rng.randint(2, 4),
                       'max': gen.pick_qty(rng, rng.choice([200, 300]) / 1e6, 'L', sig=2)}, 'newp')
        # load the plates so that wells differ (later part-way failures need unequal wells)
        for v, k in list(enumerate(self.im.kinds)):
            if k == 'p':
                self.new_slice(v)
        for _ in range(3):
            self.t_c_to_s(frac=rng.choice([0.1, 0.2, 0.3]))

    def new_slice(self, v=None):
        if v is None and self.rng.random() < 0.5:      # a second slice of a plate object that already has one
            have = [i for i, k in enumerate(self.im.kinds) if k == 'p' and any(kk == 's' and self.plate_of(j) is self.im.vars[i]
                                                                                for j, kk in enumerate(self.im.kinds))]
            v = self.rng.choice(have) if have else None
        v = self.pick('p') if v is None else v
        if v is None:
            return
        p = self.im.vars[v]
        self.emit({'op': 'slice', 'p': v, 'r': self.region(p.n_rows, p.n_columns)}, 'slice', [v])

    def t_c_to_c(self):
        s, d = self.pick('c'), self.pick('c')
        if s is None or d is None:
            return
        src, dst = self.im.vars[s], self.im.vars[d]
        kind = self.rng.choice(['ok', 'ok', 'ok', 'toomuch', 'overflow'])
        if kind == 'toomuch':
            vol = src.volume * 1.5 + 1000
        elif kind == 'overflow' and dst.max_volume != float('inf'):
            vol = (dst.max_volume - dst.volume) * 1.2 + 10
            if vol > src.volume * 0.97:
                return
        else:
            vol = src.volume * self.rng.choice([0.05, 0.1, 0.2])
            if vol < 1 or (dst.max_volume != float('inf') and dst.volume + vol > 0.97 * dst.max_volume):
                return
        q = gen.pick_qty(self.rng, vol / 1e6, 'L', sig=2, down=True)
        self.emit({'op': 'transfer', 's': s, 'd': d, 'q': q}, 'c->c:' + kind, [s, d])

    def t_c_to_s(self, frac=None):
        s, d = self.pick('c', 0.8), self.pick('ps')
        if s is None or d is None:
            return
        src = self.im.vars[s]
        wells = self.cells(d)
        if not wells:
            return
        cap = wells[0].max_volume
        kind = 'ok' if frac else self.rng.choice(['ok', 'ok', 'partway', 'drain'])
        if kind == 'ok':
            per = cap * (frac or self.rng.choice([0.05, 0.1, 0.15]))
            if any(not (w.volume + per < 0.97 * cap) for w in wells) or per * len(wells) > 0.9 * src.volume:
                return
        elif kind == 'partway':
            # fits the emptiest wells, overflows a later, fuller one
            vols = [w.volume for w in wells]
            per = (cap - max(vols)) * 1.3 + 5
            if per * len(wells) > 0.9 * src.volume or any(not self.clear(w.volume + per, cap) for w in wells):
                return
        else:
            per = src.volume / len(wells) * 1.4 + 1       # the container runs dry part-way
            if any(not (w.volume + per < 0.97 * cap) for w in wells):
                kind = 'drain+overflow'
                if any(not self.clear(w.volume + per, cap) for w in wells):
                    return
        q = gen.pick_qty(self.rng, per / 1e6, 'L', sig=2, down=True)
        self.emit({'op': 'transfer', 's': s, 'd': d, 'q': q}, 'c->s:' + kind, [s, d])

    def t_s_to_c(self):
        s, d = self.pick('ps'), self.pick('c')
        if s is None or d is None:
            return
        wells = self.cells(s)
        dst = self.im.vars[d]
        vols = [w.volume for w in wells]
        if not wells:
            return
        kind = self.rng.choice(['ok', 'ok', 'partway'])
        if kind == 'ok':
            per = min(vols) * self.rng.choice([0.1, 0.3, 0.5])
            if per < 0.5:
                kind = 'partway'
        if kind == 'partway':
            per = (min(vols) + max(vols)) / 2 + 3     # some wells can give it, others cannot
            if any(not self.clear(per, v) for v in vols):
                return
        if dst.max_volume != float('inf') and dst.volume + per * len(wells) > 0.97 * dst.max_volume:
            return
        q = gen.pick_qty(self.rng, per / 1e6, 'L', sig=2, down=True)
        self.emit({'op': 'transfer', 's': s, 'd': d, 'q': q}, 's->c:' + kind, [s, d])

    def t_s_to_s(self):
        s, d = self.pick('ps'), self.pick('ps')
        if s is None or d is None:
            return
        if self.rng.random() < 0.3:       # a single loaded well as the source (one-to-many)
            loaded = [(v, a, b) for v, k in enumerate(self.im.kinds) if k == 'p'
                      for a in range(self.im.vars[v].n_rows) for b in range(self.im.vars[v].n_columns) if self.im.vars[v].wells[a, b].volume > 20]
            if loaded:
                v, a, b = self.rng.choice(loaded)
                o, new = self.emit({'op': 'slice', 'p': v, 'r': {'rect': [[a], [b]]}}, 'slice', [v])
                if new:
                    s = new[0]
        elif self.rng.random() < 0.4:       # prefer a disjoint slice of the same plate object
            ids = set(map(id, self.cells(s)))
            cands = [v for v, k in enumerate(self.im.kinds) if k == 's' and self.plate_of(v) is self.plate_of(s)
                     and not (set(map(id, self.cells(v))) & ids)]
            if not cands:
                pl = self.plate_of(s)
                pv = next((i for i, o in enumerate(self.im.vars) if o is pl), None)
                free = [(a, b) for a in range(pl.n_rows) for b in range(pl.n_columns) if id(pl.wells[a, b]) not in ids]
                if pv is not None and free:
                    k = len(ids) if len(free) >= len(ids) and self.rng.random() < 0.6 else 1
                    o, new = self.emit({'op': 'slice', 'p': pv, 'r': {'list': [list(c) for c in self.rng.sample(free, k)]}}, 'slice', [pv])
                    cands = new
            if cands:
                d = self.rng.choice(cands)
        sw, dw = self.cells(s), self.cells(d)
        if not sw or not dw:
            return
        same = self.plate_of(s) is self.plate_of(d)
        if same and set(map(id, sw)) & set(map(id, dw)):
            tag = 'overlap'
            per = 1.0
        else:
            tag = 'same' if same else 'diff'
            shape_ok = len(sw) == 1 or len(dw) == 1 or len(sw) == len(dw)
            per = min(w.volume for w in sw) * self.rng.choice([0.1, 0.2]) / (len(dw) if len(sw) == 1 else 1)
            if shape_ok:
                if per < 0.5:
                    per = max(w.volume for w in sw) * 0.5 + 2       # part-way or outright failure
                    if any(not self.clear(per * (len(dw) if len(sw) == 1 else 1), w.volume) for w in sw):
                        return
                    tag += ':short'
                cap = dw[0].max_volume
                gain = per * (len(sw) if len(dw) == 1 else 1)
                if any(not self.clear(w.volume + gain, cap) for w in dw):
                    return
        q = gen.pick_qty(self.rng, per / 1e6, 'L', sig=2, down=True)
        self.emit({'op': 'transfer', 's': s, 'd': d, 'q': q}, 's->s:' + tag, [s, d])

    def remove(self):
        t = self.pick('cps')
        if t is None:
            return
        w = self.rng.choice([{'k': 'Liquid'}, {'k': 'Solid'}, {'s': self.rng.choice(self.subs)['id']}])
        self.emit({'op': 'remove', 't': t, 'w': w}, 'remove', [t])

    def fill(self):
        t = self.pick('cps')
        if t is None:
            return
        if self.im.kinds[t] == 'c':
            c = self.im.vars[t]
            target = c.volume * self.rng.choice([0.5, 1.3, 1.6]) + 100
            if c.max_volume != float('inf') and not self.clear(target, c.max_volume):
                return
        else:
            wells = self.cells(t)
            if not wells:
                return
            vols = [w.volume for w in wells]
            cap = wells[0].max_volume
            target = self.rng.choice([max(vols) * 1.2 + 5, (min(vols) + max(vols)) / 2 + 1, cap * 1.5])
            if any(not self.clear(target, v) for v in vols) or not self.clear(target, cap):
                return
        q = gen.pick_qty(self.rng, target / 1e6, 'L', sig=3, down=True)
        self.emit({'op': 'fill', 't': t, 'solvent': self.rng.choice(self.liquids), 'q': q}, 'fill:' + self.im.kinds[t], [t])

    def dilute(self):
        v = self.pick('c')
        if v is None:
            return
        c = self.im.vars[v]
        sol = [s for s in c.contents if not s.is_enzyme() and c.contents[s] > 1]
        if not sol or c.volume <= 0:
            return
        solute = self.rng.choice(sol)
        sid = self.sid(solute)
        solvent = self.rng.choice([x for x in self.liquids if x != sid] or [None])
        if solvent is None:
            return
        cur = c.contents[solute] / c.volume        # umol/uL = mol/L
        f = self.rng.choice([0.3, 0.6, 1.5])
        newvol = c.volume / f
        if f < 1 and c.max_volume != float('inf') and not self.clear(newvol, c.max_volume, 0.1):
            return
        doc = {'s': 'M', 'v': gen.dec(cur * f, 3)}
        self.emit({'op': 'dilute', 'v': v, 'solute': sid, 'c': doc, 'solvent': solvent}, 'dilute:' + ('up' if f > 1 else 'down'), [v])

    def solfrom(self):
        v = self.pick('c')
        if v is None:
            return
        c = self.im.vars[v]
        sol = [s for s in c.contents if s.is_solid() and c.contents[s] > 100]
        liq = [s for s in c.contents if s.is_liquid() and c.contents[s] > 1000]
        if not sol or not liq or c.volume < 2000:
            return
        solute = self.rng.choice(sol)
        sid = self.sid(solute)
        lid = self.sid(liq[0])
        cur = c.contents[solute] / c.volume
        f = self.rng.choice([0.2, 0.5, 2.0])
        q = gen.pick_qty(self.rng, c.volume * 0.1 / 1e6, 'L', sig=2, down=True)
        self.emit({'op': 'solfrom', 'src': v, 'solute': sid, 'c': {'s': 'M', 'v': gen.dec(cur * f, 3)}, 'solvent': lid, 'q': q,
                   'name': self.name()}, 'solfrom:' + ('high' if f > 1 else 'ok'), [v])

    def recipe(self):
        """a whole recipe as one call: uses(objects), steps written with the user's own objects and slices, bake; small amounts so that
        every decision is far from a boundary, or one step that is far beyond (bake fails at that step)"""
        rng = self.rng
        cs, ps, names = [], [], set()
        for v in rng.sample(range(len(self.im.vars)), len(self.im.vars)):
            o, k = self.im.vars[v], self.im.kinds[v]
            if k == 's' or o.name in names:
                continue
            if k == 'c' and len(cs) < 2 and o.volume > 500:
                cs.append(v); names.add(o.name)
            if k == 'p' and len(ps) < 2:
                ps.append(v); names.add(o.name)
        uses = cs + ps
        if not cs or len(uses) < 2:
            return
        objs = [self.im.vars[v] for v in uses]
        idx = {v: i for i, v in enumerate(uses)}
        slices = [(v, i) for v, k in enumerate(self.im.kinds) if k == 's' for i, o in enumerate(objs)
                  if self.im.kinds[uses[i]] == 'p' and self.im.vars[v].plate.name == o.name and self.im.vars[v].plate.wells.shape == o.wells.shape]

        def plate_ref(i):
            cand = [v for v, j in slices if j == i]
            if cand and rng.random() < 0.7:
                return {'sl': rng.choice(cand), 'n': i}
            return {'n': i}

        def wells_of(ref):
            p = objs[ref['n']]
            return list(p[self.im.vars[ref['sl']].item].get().flatten()) if 'sl' in ref else list(p.wells.flatten())
        steps, touched = [], set()
        fail_at = rng.randrange(5) if rng.random() < 0.3 else None
        for k in range(rng.randint(2, 5)):
            src = rng.choice(cs)
            huge = fail_at == k
            kind = rng.choice(['c->p', 'c->p', 'p->c', 'c->c', 'remove', 'fill', 'dilute'])
            if kind == 'c->p' and ps:
                r = plate_ref(idx[rng.choice(ps)])
                ws = wells_of(r)
                cap = ws[0].max_volume
                if not ws or any(w.volume > 0.4 * cap for w in ws) or objs[idx[src]].volume < 400:
                    continue
                q = {'v': '1', 'p': '', 'b': 'L'} if huge else {'v': str(rng.choice([2, 3, 5])), 'p': 'u', 'b': 'L'}
                steps.append({'op': 'transfer', 'src': {'n': idx[src]}, 'dst': r, 'q': q})
                touched |= {idx[src], r['n']}
            elif kind == 'p->c' and ps:
                r = plate_ref(idx[rng.choice(ps)])
                ws = wells_of(r)
                if not ws or any(w.volume < 30 for w in ws) or r['n'] in touched:
                    continue
                q = {'v': '1', 'p': '', 'b': 'L'} if huge else {'v': '2', 'p': 'u', 'b': 'L'}
                steps.append({'op': 'transfer', 'src': r, 'dst': {'n': idx[src]}, 'q': q})
                touched |= {idx[src], r['n']}
            elif kind == 'c->c' and len(cs) == 2:
                a, b = cs if rng.random() < 0.5 else cs[::-1]
                A, B = objs[idx[a]], objs[idx[b]]
                if B.max_volume != float('inf') and B.volume > 0.8 * B.max_volume:
                    continue
                q = {'v': '1000', 'p': '', 'b': 'L'} if huge else {'v': '4', 'p': 'u', 'b': 'L'}
                steps.append({'op': 'transfer', 'src': {'n': idx[a]}, 'dst': {'n': idx[b]}, 'q': q})
                touched |= {idx[a], idx[b]}
            elif kind == 'remove':
                t = plate_ref(idx[rng.choice(ps)]) if ps and rng.random() < 0.6 else {'n': idx[src]}
                if t['n'] in touched and self.im.kinds[uses[t['n']]] == 'c':
                    continue
                steps.append({'op': 'remove', 't': t, 'w': rng.choice([{'k': 'Solid'}, {'s': rng.choice(self.subs)['id']}])})
                touched.add(t['n'])
            elif kind == 'fill' and idx[src] not in touched:
                c = objs[idx[src]]
                target = c.volume * 1.3 + 200
                if c.max_volume != float('inf') and target > 0.9 * c.max_volume:
                    continue
                steps.append({'op': 'fill', 't': {'n': idx[src]}, 'solvent': rng.choice(self.liquids),
                              'q': gen.pick_qty(rng, target / 1e6, 'L', sig=3, down=True)})
                touched.add(idx[src])
        for i in range(len(uses)):        # bake refuses while a declared object is unused
            if i not in touched:
                steps.append({'op': 'remove', 't': {'n': i}, 'w': {'k': 'Enzyme'}})
        operands = uses + [s[k]['sl'] for s in steps for k in ('src', 'dst', 't') if k in s and 'sl' in s[k]]
        self.emit({'op': 'recipe', 'uses': uses, 'steps': steps}, 'recipe' + (':sabotaged' if fail_at is not None and fail_at < len(steps) else ''), operands)

    def uses(self):
        v = self.pick('cp')
        if v is not None:
            self.emit({'op': 'uses', 'v': v}, 'uses', [v])

    def run(self, n):
        self.setup()
        acts = [(self.new_slice, 2), (self.t_c_to_c, 2), (self.t_c_to_s, 4), (self.t_s_to_c, 3), (self.t_s_to_s, 4), (self.remove, 1.5),
                (self.fill, 2.5), (self.dilute, 1), (self.solfrom, 0.7), (self.uses, 0.5), (self.recipe, 1.5)]
        tries = 0
        while len(self.ops) < n and tries < 6 * n:
            tries += 1
            f = self.rng.choices([a for a, _ in acts], [w for _, w in acts])[0]
            f()
        return self

    def prog(self):
        return {'subs': self.subs, 'ops': self.ops}


# ----------------------------------------------------------------------------- recipes (oracle only)
def recipe_cases(chk, n):
    """objects handed to a recipe are unchanged by uses / adding steps / bake (also a failing bake); later operations on the
    objects a bake returned change neither the recipe's arguments nor each other"""
    from pyplate import Container, Plate, Recipe
    fails_all = []
    ncalls = 0
    kinds = {}
    for i in range(n):
        rng = random.Random(chk.seed * 100003 + 41000 + i)
        rg = recipes.RecipeGen(rng, rng.randint(3, 8))
        prog = rg.prog([])
        sabotage = i % 3 == 2
        if sabotage:
            cand = [k for k, st in enumerate(prog['steps']) if st['op'] == 'transfer']
            if cand:
                k = rng.choice(cand[len(cand) // 2:])
                prog = _copy.deepcopy(prog)
                q = prog['steps'][k]['q']
                q['v'] = str(F(q['v']) * 1000)
        subs = {sd['id']: dsl.make_substance(sd) for sd in prog['subs']}
        w = Watch()
        for s in subs.values():
            w.add(f"substance {s.name}", s)
        handles = {}
        for o in prog['objects']:
            if o['t'] == 'c':
                handles[o['name']] = Container(recipes.cname(o['name']), dsl.qty_str(o['max']) if o.get('max') else 'inf L',
                                               [(subs[s], dsl.qty_str(q)) for s, q in o['init']] or None)
            else:
                handles[o['name']] = Plate(recipes.cname(o['name']), dsl.qty_str(o['max']), rows=o['rows'], columns=o['cols'])
        for pf in prog.get('prefill', []):
            handles[pf['src']], handles[pf['dst']] = Plate.transfer(handles[pf['src']], handles[pf['dst']], dsl.qty_str(pf['q']))
        for o in prog['objects']:
            w.add(f"declared object {o['name']}", handles[o['name']])
        r = Recipe()
        fails = []

        def guarded(label, f):
            nonlocal ncalls
            before = w.snapshot()
            ncalls += 1
            try:
                res = f()
                outcome = 'ok'
            except Exception as e:  # noqa
                res = None
                outcome = common.exc_class(e)
            kinds[(label.split()[0], outcome)] = kinds.get((label.split()[0], outcome), 0) + 1
            for t in w.changed(before):
                fails.append(f"{label} ({outcome}): {t}")
            return res, outcome
        guarded('uses', lambda: r.uses(*handles.values()))
        slices = {}

        def href(ref):
            if 'c' in ref:
                return handles[ref['c']]
            key = json.dumps(ref, sort_keys=True)
            if key not in slices:
                slices[key] = handles[ref['p']][dsl.py_selector(ref['r'])]
                w.add(f"slice {dsl.py_selector(ref['r'])} of {ref['p']}", slices[key])
            return slices[key]
        ok = True
        for k, st in enumerate(prog['steps']):
            op = st['op']
            try:
                if op == 'create':
                    f = lambda: r.create_container(recipes.cname(st['name']), dsl.qty_str(st['max']) if st.get('max') else 'inf L',
                                                   [(subs[s], dsl.qty_str(q)) for s, q in st['init']] or None)
                elif op == 'solution':
                    f = lambda: r.create_solution([subs[s] for s in st['solutes']], subs[st['solvent']], recipes.cname(st['name']), **recipes.mode_kwargs(st['mode']))
                elif op == 'solutionc':
                    f = lambda: r.create_solution([subs[s] for s in st['solutes']], handles[st['solventn']], recipes.cname(st['name']), **recipes.mode_kwargs(st['mode']))
                elif op == 'solfrom':
                    f = lambda: r.create_solution_from(handles[st['src']], subs[st['solute']], dsl.conc_str(st['c']), subs[st['solvent']],
                                                       dsl.qty_str(st['q']), recipes.cname(st['name']))
                elif op == 'transfer':
                    a, b = href(st['src']), href(st['dst'])
                    f = lambda: r.transfer(a, b, dsl.qty_str(st['q']))
                elif op == 'remove':
                    a = href(st['t'])
                    f = lambda: r.remove(a, subs[st['w']['s']] if 's' in st['w'] else dsl.KINDS[st['w']['k']])
                elif op == 'dilute':
                    f = lambda: r.dilute(handles[st['name']], subs[st['solute']], dsl.conc_str(st['c']), subs[st['solvent']])
                elif op == 'fill':
                    a = href(st['t'])
                    f = lambda: r.fill_to(a, subs[st['solvent']], dsl.qty_str(st['q']))
                else:
                    continue
            except Exception as e:  # noqa
                fails.append(f"step {k}: building the call failed: {e}")
                continue
            res, outcome = guarded(f"{op} step {k}", f)
            if op in ('create', 'solution', 'solutionc', 'solfrom') and outcome == 'ok':
                handles[st['name']] = res
                w.add(f"placeholder {st['name']}", res)
            if outcome != 'ok':
                ok = False
                break
        if ok:
            res, outcome = guarded('bake' + (' (sabotaged)' if sabotage else ''), r.bake)
            if outcome == 'ok':
                objs = list(res.values())
                for name, o in res.items():
                    w.add(f"bake result {name}", o)
                old = {}
                for _, o in w.objs[:-len(objs)]:
                    old.update(parts(o))
                for name, o in res.items():
                    for pid, (kind, po) in parts(o).items():
                        if pid in old:
                            fails.append(f"bake: result {name} shares a {kind} with an object handed to the recipe")
                            break
                # later operations on returned objects
                conts = [o for o in objs if isinstance(o, Container) and o.volume > 10]
                plates = [o for o in objs if isinstance(o, Plate)]
                liquid = next((s for s in subs.values() if s.is_liquid()), None)
                if len(conts) >= 2:
                    guarded('later Container.transfer', lambda: Container.transfer(conts[0], conts[1], f"{conts[0].volume * 0.1:.3g} uL"))
                if conts and plates:
                    guarded('later Plate.transfer', lambda: Plate.transfer(conts[0], plates[0], '1 uL'))
                    guarded('later Plate.transfer (too much)', lambda: Plate.transfer(conts[0], plates[0][:], '1 L'))
                if plates:
                    sl = plates[0][1:, 1:]
                    w.add('slice of a bake result', sl)
                    guarded('later slice.remove', lambda: sl.remove())
                    if liquid is not None:
                        guarded('later slice.fill_to', lambda: sl.fill_to(liquid, f"{plates[0].max_volume_per_well * 0.9:.4g} uL"))
                        guarded('later slice.fill_to (too much)', lambda: sl.fill_to(liquid, '1 L'))
                # recipe-held state vs results: the recipe's own copies are unchanged too
        if fails:
            fails_all.append((prog, fails))
    return fails_all, ncalls, kinds


# ----------------------------------------------------------------------------- directed cases (the situations the statement names)
def directed():
    """hand-written histories: reuse of a slice after each kind of call, failure part-way on a list slice, no-op fill/dilute"""
    L = dsl.LIBRARY
    subs = [s for s in L if s['id'] in (1, 2, 4)]
    liquid = next(s['id'] for s in subs if s['kind'] == 'Liquid')
    solid = next(s['id'] for s in subs if s['kind'] == 'Solid')
    q = lambda v, p, b: {'v': str(v), 'p': p, 'b': b}
    base = [{'op': 'newc', 'name': 1, 'max': None, 'init': [(liquid, q(20, 'm', 'L')), (solid, q(1, '', 'g'))]},
            {'op': 'newp', 'name': 2, 'rows': 2, 'cols': 3, 'max': q(300, 'u', 'L')},
            {'op': 'slice', 'p': 1, 'r': {'list': [[0, 0], [0, 1], [1, 2]]}},            # var 2
            {'op': 'transfer', 's': 0, 'd': 2, 'q': q(30, 'u', 'L')},                      # vars 3 (c), 4 (p)
            {'op': 'slice', 'p': 4, 'r': {'list': [[0, 0], [0, 1], [1, 2]]}},            # var 5
            {'op': 'slice', 'p': 4, 'r': {'rect': [[0], [0]]}},                            # var 6
            {'op': 'transfer', 's': 3, 'd': 6, 'q': q(100, 'u', 'L')},                     # vars 7, 8: well A1 now fuller
            {'op': 'slice', 'p': 8, 'r': {'list': [[0, 1], [1, 2], [0, 0]]}},            # var 9
            {'op': 'newc', 'name': 3, 'max': q(10, 'm', 'L'), 'init': []}]                 # var 10
    progs = []
    # slice -> container, repeated with the same slice object; then a part-way failure (A1 can give 100, the others cannot)
    progs.append(base + [{'op': 'transfer', 's': 9, 'd': 10, 'q': q(2, 'u', 'L')}, {'op': 'transfer', 's': 9, 'd': 10, 'q': q(2, 'u', 'L')},
                         {'op': 'transfer', 's': 9, 'd': 10, 'q': q(100, 'u', 'L')}, {'op': 'transfer', 's': 9, 'd': 10, 'q': q(2, 'u', 'L')}])
    # container -> slice with overflow at the last well of the list, then reuse
    progs.append(base + [{'op': 'transfer', 's': 7, 'd': 9, 'q': q(200, 'u', 'L')}, {'op': 'transfer', 's': 7, 'd': 9, 'q': q(20, 'u', 'L')},
                         {'op': 'transfer', 's': 7, 'd': 9, 'q': q(20, 'u', 'L')}])
    # remove / fill_to on a slice, slice reused; fill fails part-way (A1 is above the target)
    progs.append(base + [{'op': 'remove', 't': 9, 'w': {'k': 'Solid'}}, {'op': 'remove', 't': 9, 'w': {'k': 'Liquid'}},
                         {'op': 'fill', 't': 9, 'solvent': liquid, 'q': q(100, 'u', 'L')}, {'op': 'fill', 't': 9, 'solvent': liquid, 'q': q(250, 'u', 'L')},
                         {'op': 'fill', 't': 9, 'solvent': liquid, 'q': q(250, 'u', 'L')}])
    # slice -> slice on the same plate and across plates, slices reused
    progs.append(base + [{'op': 'slice', 'p': 8, 'r': {'rect': [[1], [0, 1]]}},           # var 11
                         {'op': 'slice', 'p': 8, 'r': {'rect': [[0], [0, 1]]}},           # var 12
                         {'op': 'transfer', 's': 12, 'd': 11, 'q': q(5, 'u', 'L')}, {'op': 'transfer', 's': 12, 'd': 11, 'q': q(5, 'u', 'L')},
                         {'op': 'transfer', 's': 12, 'd': 11, 'q': q(60, 'u', 'L')},       # B-row: the second pair fails (A2 has 30)
                         {'op': 'newp', 'name': 4, 'rows': 2, 'cols': 3, 'max': q(300, 'u', 'L')},
                         {'op': 'transfer', 's': 12, 'd': 11, 'q': q(1, 'u', 'L')}])
    # one well of one plate dispensed into a row of another plate: repeated with the same slice objects, then running dry part-way
    progs.append(base + [{'op': 'newp', 'name': 5, 'rows': 2, 'cols': 3, 'max': q(300, 'u', 'L')},     # var 11
                         {'op': 'slice', 'p': 8, 'r': {'rect': [[0], [0]]}},                              # var 12: A1 of the loaded plate
                         {'op': 'slice', 'p': 11, 'r': {'rect': [[1], [0, 1, 2]]}},                       # var 13: row B of the new plate
                         {'op': 'transfer', 's': 12, 'd': 13, 'q': q(3, 'u', 'L')}, {'op': 'transfer', 's': 12, 'd': 13, 'q': q(3, 'u', 'L')},
                         {'op': 'transfer', 's': 12, 'd': 13, 'q': q(60, 'u', 'L')}, {'op': 'transfer', 's': 12, 'd': 13, 'q': q(3, 'u', 'L')}])
    # no-op fill_to / dilute return new objects and leave the instructions of the argument alone
    progs.append([{'op': 'newc', 'name': 1, 'max': q(10, 'm', 'L'), 'init': [(liquid, q(5, 'm', 'L')), (solid, q(1, '', 'g'))]},
                  {'op': 'fill', 't': 0, 'solvent': liquid, 'q': q(10, 'm', 'L')},           # var 1
                  {'op': 'fill', 't': 1, 'solvent': liquid, 'q': q(10, 'm', 'L')},           # var 2: nothing to add
                  {'op': 'fill', 't': 1, 'solvent': liquid, 'q': q(10, 'm', 'L')},
                  {'op': 'uses', 'v': 1}, {'op': 'fill', 't': 4, 'solvent': liquid, 'q': q(10, 'm', 'L')}])
    # a container drained completely (every entry of the source goes to zero) into a container holding the same substances, then into
    # one that is too small (the call raises after the amounts were computed), then used again: the caller's source is never touched
    progs.append([{'op': 'newc', 'name': 1, 'max': None, 'init': [(liquid, q(10, 'm', 'L'))]},                                  # var 0
                  {'op': 'newc', 'name': 2, 'max': None, 'init': [(liquid, q(40, 'm', 'L')), (solid, q(100, 'm', 'g'))]},       # var 1
                  {'op': 'newc', 'name': 3, 'max': q(5, 'm', 'L'), 'init': []},                                                 # var 2
                  {'op': 'transfer', 's': 0, 'd': 1, 'q': q(10, 'm', 'L')},                                                     # vars 3, 4
                  {'op': 'transfer', 's': 0, 'd': 2, 'q': q(10, 'm', 'L')},                                                     # raises: exceeds 5 mL
                  {'op': 'transfer', 's': 0, 'd': 1, 'q': q(1, 'm', 'L')},
                  {'op': 'newp', 'name': 4, 'rows': 1, 'cols': 2, 'max': q(20, 'm', 'L')},                                      # var 7 (after 5, 6)
                  {'op': 'slice', 'p': 7, 'r': {'rect': [[0], [0]]}},                                                           # var 8
                  {'op': 'transfer', 's': 0, 'd': 8, 'q': q(10, 'm', 'L')},
                  {'op': 'transfer', 's': 0, 'd': 1, 'q': q(10, 'm', 'L')}])
    return [{'subs': subs, 'ops': p} for p in progs]


def shrink(prog):
    def bad(p):
        try:
            return bool(run_impl(p)[2])
        except Exception:  # noqa
            return False
    best = prog
    i = len(best['ops']) - 1
    while i >= 0:
        cand = dict(best, ops=best['ops'][:i] + best['ops'][i + 1:])
        # removing an op shifts variable numbers: only drop ops whose results nobody uses (trailing or failing ones)
        if renumber_ok(best, i) and bad(cand):
            best = cand
        i -= 1
    return best


def renumber_ok(prog, i):
    """op i can be dropped without renumbering iff it produced no variable"""
    im = HImpl(prog['subs'])
    for k, op in enumerate(prog['ops'][:i + 1]):
        n = len(im.vars)
        try:
            im.step(op)
        except Exception:  # noqa
            return False
        if k == i:
            return len(im.vars) == n
    return False


def run(chk, gate, status):
    full = chk.tier == 'thorough'
    n = 60 if not full else 500
    gens = []
    for i in range(n):
        rng = random.Random(chk.seed * 100003 + 40000 + i)
        gens.append(HGen(rng).run(rng.randint(10, 22)))
    progs = directed() + [g.prog() for g in gens]
    results = [run_impl(p) for p in directed()] + [(g.im, g.obs, g.fails) for g in gens]
    terms = [to_coq(p) for p in progs]
    model, errors = common.coq_eval('C04', IMPORTS, terms, chunk=6)
    nfail = ndis = ties = 0
    ndirected = len(directed())
    stats, keys = {}, set()
    samples = []

    def model_decisions(ps, i):
        ms, _ = common.coq_eval('C04tie', IMPORTS, [to_coq(p) for p in ps])
        return [None if x is None else decode(x, len(p['ops']))[0][i]['ok'] for x, p in zip(ms, ps)]
    for g in gens:
        for k, v in g.stats.items():
            stats[k] = stats.get(k, 0) + v
        keys |= g.keys
    for pi, (prog, (im, obs, fails), m) in enumerate(zip(progs, results, model)):
        if fails:
            nfail += 1
            if nfail <= 3:
                small = shrink(prog)
                sf = run_impl(small)[2] or fails
                chk.violation(sf[0][1], {'program': small, 'failures': [list(x) for x in sf[:6]], 'original_length': len(prog['ops'])})
        if m is None:
            ndis += 1
            continue
        try:
            mobs, mgraph = decode(m, len(prog['ops']))
            # create_solution_from rounds the stock's amounts and volume before solving: its results are exact to ~1e-7 only (as in C12)
            d = compare(obs, im.graph(), mobs, mgraph, tol=10.0, rtol=1e-6 if any(o['op'] in ('solfrom', 'solutionc') for o in prog['ops']) else 2e-8)
        except Exception as e:  # noqa
            d = [(0, f"cannot decode the model's output: {type(e).__name__} {e}")]
        if d and d[0][1].startswith('decision:') and pi >= ndirected and histcheck.float_tie(
                prog, d[0][0], lambda p, i: run_impl(p)[1][i]['ok'], model_decisions):
            ties += 1
            d = []
        if d:
            ndis += 1
            if not fails and ndis <= 3:
                chk.violation('model/implementation disagree: ' + d[0][1],
                              {'relation': 'Heap.hrun ~ implementation (decisions, values, identity structure)',
                               'program': dict(prog, ops=prog['ops'][:d[0][0] + 1]), 'differences': [t for _, t in d[:4]]}, found_input=False)
        if pi % max(1, len(progs) // 3) == 0 and len(samples) < 3:
            samples.append({'ops': [json.dumps(o)[:120] for o in prog['ops'][:3]], 'n_ops': len(prog['ops']), 'graph_len': len(im.graph())})
    rfails, rcalls, rkinds = recipe_cases(chk, 30 if not full else 250)
    for prog, fails in rfails[:3]:
        nfail += 1
        chk.violation(fails[0], {'recipe': prog, 'failures': fails[:6]})
    if errors:
        chk.violation('model evaluation failed: ' + errors[0][:300], {'relation': 'coq_eval C04', 'errors': errors[:3]}, found_input=False)
    chk.assumptions += ["observable state = name, contents (keys, order, exact float values), volume, max_volume, instructions of every container and well; "
                        "names, labels, shape and wells of plates; plate identity, selector and wells seen through a slice; all fields of substances",
                        "functools caches on slices (shape/size) and the Recipe builder object itself are not fingerprinted (a recipe is mutable by design)",
                        "recipe layer (uses / steps / bake / later operations on results): oracle on the implementation only; the heap model covers uses"]
    return {'evaluations': sum(len(p['ops']) for p in progs) + rcalls, 'programs': len(progs), 'recipe_calls_watched': rcalls,
            'recipe_call_outcomes': {f"{a}:{b}": c for (a, b), c in sorted(rkinds.items())},
            'distinct_nontrivial': len(keys), 'rule': RULE, 'disagreements_checked': ndis, 'oracle_failures': nfail, 'float_ties_not_judged': ties,
            'generator_distribution': stats, 'samples': samples,
            'history_lengths': {'min': min(len(p['ops']) for p in progs), 'max': max(len(p['ops']) for p in progs)}}


def replay(path):
    r = json.load(open(path))
    print(json.dumps({k: v for k, v in r.items() if k not in ('program', 'recipe')}, indent=1)[:2000])
    if 'program' in r and 'relation' not in r:
        im, obs, fails = run_impl(r['program'])
        for i, t in fails[:6]:
            print(f"PROPERTY FAILS at op {i} {json.dumps(r['program']['ops'][i])[:100]}: {t}")
        print('property', 'FAILS' if fails else 'HOLDS', 'on this input')
        return 1 if fails else 0
    if 'program' in r:
        prog = r['program']
        im, obs, fails = run_impl(prog)
        model, errors = common.coq_eval('C04r', IMPORTS, [to_coq(prog)])
        if model[0] is None:
            print('model evaluation failed', errors)
            return 1
        mobs, mgraph = decode(model[0], len(prog['ops']))
        d = compare(obs, im.graph(), mobs, mgraph, tol=10.0)
        print('correspondence', 'BROKEN: ' + d[0][1] if d else 'holds')
        return 1 if d or fails else 0
    return 1
