"""C02 -- a transfer moves exactly the requested amount as a uniform aliquot.  Oracle: per well, the loss/gain in the unit of q equals q (n*q for the single side of one-to-many / many-to-one) and every substance is reduced by the same fraction."""
import random
import common, dsl, gen, histcheck, oracles
from props import C01 as base

RULE = 'non-trivial = successful transfer of a non-zero amount out of a source with >= 2 substances; distinct by (pairing form, unit, prefix, kinds present, shapes)'
WEIGHTS = {'newc': 1, 'newp': 0.4, 'cc': 6, 'cp': 3, 'pc': 3, 'pp': 4, 'remove': 0.5, 'fill': 0.5, 'bad': 1}


def make_cases(chk):
    n = 60 if chk.tier == 'quick' else 600
    hi = 12 if chk.tier == 'quick' else 16     # the model's exact rationals grow with the length of a history: more histories, not longer ones
    gens = []
    for i in range(n):
        rng = random.Random(chk.seed * 100003 + 20000 + i)
        gens.append(gen.history(rng, rng.randint(6, hi), weights=WEIGHTS, trace=(i % 6 == 5)))
    return gen.whole_source_cases(chk.seed) + gen.repeated_well_cases(chk.seed) + gen.twin_lot_cases(chk.seed) + gen.long_decimal_cases(chk.seed) + gen.huge_ratio_cases(chk.seed) + gen.short_well_cases(chk.seed) + gens


def nontrivial(prog, obs):
    return base.nontrivial(prog, obs)


def run(chk, gate, status):
    gens = make_cases(chk)
    chk.assumptions += ['sizes are compared within 1e-8 relative to the amount measured (the library rounds stored amounts to 1e-10 storage units)']
    cov = histcheck.run(chk, gens, oracles.c02, 'C02', RULE, nontrivial)
    cov['operations_under_configuration_variants'] = histcheck.variants(chk, gens, oracles.c02, 'C02v', limit=8 if chk.tier == 'quick' else 60)
    return cov


def replay(path):
    return histcheck.replay(path, oracles.c02)
