"""C11 -- dilute and fill_to reach their target by adding only solvent.
Tie: correspondence on histories whose last operations are dilute / fill_to on reachable containers (binary and
multi-component, solvent present or new, enzyme bystanders, with and without a limiting capacity).
Oracle: the concentration / total read back from the result's contents with exact fractions equals the target; only
the named solvent increased; higher targets and lower fills are refused."""
import random
from fractions import Fraction as F
import common, dsl, gen, histcheck, oracles

RULE = ('non-trivial = a dilute / fill_to whose outcome the oracle judges (accepted with solvent added, or refused for a '
        'target on the wrong side); distinct by (operation, unit pair or fill unit, solvent present before, number of substances, accepted)')
CONC_FORMS = [('mol', 'L'), ('g', 'L'), ('g', 'g'), ('mol', 'mol'), ('mol', 'g'), ('g', 'mol'), ('L', 'L'), ('L', 'g'), ('mol', 'kg'), ('mg', 'mL'), ('mmol', 'L'), ('g', 'kg')]


def conc_value(subs, dump, sid, nu, du):
    n = oracles.PF
    def sp(u):
        for b in ('mol', 'L', 'g', 'U'):
            if u.endswith(b):
                return n[u[:-len(b)]][1], b
    (pn, nb), (pd, db) = sp(nu), sp(du)
    sd = [s for s in subs if s['id'] == sid][0]
    num = histcheck.amount_in(sd, dump['cont'].get(sid, F(0)), nb) / pn
    den = histcheck.measure(subs, dump, db) / pd
    return num / den if den != 0 else None


def conc_den(subs, dump, du):
    """the denominator of conc_value: the whole content measured in the unit du"""
    for b in ('mol', 'L', 'g', 'U'):
        if du.endswith(b):
            return histcheck.measure(subs, dump, b) / oracles.PF[du[:-len(b)]][1]


def oracle(prog, obs, impl):
    fails = []
    subs = prog['subs']
    k = F(histcheck.tol_scale(prog))
    for i, op, o, dumps in oracles.walk(prog, obs):
        if op['op'] == 'dilute' and op['v'] in dumps:
            before = dumps[op['v']]
            c = op['c']
            target = dsl.conc_parse(c)
            cur = conc_value(subs, before, op['solute'], target[1], target[2])
            tv = target[0]
            if cur is None:
                continue
            if o['ok']:
                after = o['out'][0][1]
                got = conc_value(subs, after, op['solute'], target[1], target[2])
                if got is None or abs(got - tv) > abs(tv) * F(1, 10**6) * k + F(1, 10**15):
                    fails.append((i, f"dilute to {dsl.conc_str(c)}: the result has {float(got) if got is not None else None!r}, target {float(tv)!r} ({target[1]}/{target[2]})"))
                for s in set(before['cont']) | set(after['cont']):
                    x, y = before['cont'].get(s, F(0)), after['cont'].get(s, F(0))
                    if s != op['solvent'] and x != y:
                        fails.append((i, f"dilute changed substance {s} ({float(x)!r} -> {float(y)!r}), which is not the solvent"))
                    if s == op['solvent'] and y < x:
                        fails.append((i, "dilute decreased the solvent"))
                if after['max'] is not None and after['vol'] > after['max'] * (1 + F(1, 10**9)):
                    fails.append((i, "dilute exceeded the capacity"))
                if tv > cur * (1 + F(1, 10**4)):
                    fails.append((i, f"dilute to {float(tv)!r}, above the current {float(cur)!r}, was accepted"))
            else:
                if tv < cur * (1 - F(1, 10**4)) and tv > 0:
                    # a lower target is reachable unless the capacity forbids it
                    sd = [s for s in subs if s['id'] == op['solvent']][0]
                    one_ = {'cont': {op['solvent']: F(1)}, 'vol': F(0), 'max': None, 't': 'c'}
                    if not conc_den(subs, one_, target[2]):
                        pass      # the solvent adds nothing to the denominator (a solid without volume and a per-volume target): no amount of it dilutes
                    elif before['max'] is None and sd['kind'] != 'Enzyme' and op['solvent'] != op['solute']:
                        fails.append((i, f"dilute from {float(cur)!r} to the lower {float(tv)!r} {target[1]}/{target[2]} was refused: {o['exc']} {o.get('msg')}"))
                    elif before['max'] is not None and sd['kind'] != 'Enzyme' and op['solvent'] != op['solute']:
                        # with a capacity: the amount x of solvent that reaches the target solves  num / (den0 + x * k) = target  (adding
                        # solvent leaves the numerator alone); refused only if the diluted volume does not fit
                        one = {'cont': {op['solvent']: F(1)}, 'vol': F(0), 'max': None, 't': 'c'}
                        k1 = conc_den(subs, one, target[2])
                        num = cur * conc_den(subs, before, target[2])
                        if k1 and k1 > 0:
                            x = (num / tv - conc_den(subs, before, target[2])) / k1
                            newvol = before['vol'] + x * histcheck.measure(subs, one, 'L') * 10**6
                            if x > 0 and abs(newvol - before['max']) <= before['max'] * F(1, 10**9) and not prog.get('tol_k'):
                                fails.append((i, f"dilute to {dsl.conc_str(c)} fills the container exactly ({float(newvol)!r} uL of {float(before['max'])!r} uL) but was refused: {o['exc']} {o.get('msg')}"))
                            elif x > 0 and newvol <= before['max'] * (1 - F(1, 10**4)):
                                fails.append((i, f"dilute to {dsl.conc_str(c)} needs {float(newvol)!r} uL of the container's {float(before['max'])!r} uL but was refused: {o['exc']} {o.get('msg')}"))
                elif tv > cur * (1 + F(1, 10**4)) and o['exc'] != 'ValueError' and \
                        conc_den(subs, {'cont': {op['solvent']: F(1)}, 'vol': F(0), 'max': None, 't': 'c'}, target[2]):
                    # (a solvent that adds nothing to the denominator -- a solid without volume under default densities inf and a
                    #  per-volume target -- makes the request meaningless; the library then fails in its arithmetic: not judged)
                    fails.append((i, f"dilute above the current concentration raised {o['exc']} instead of ValueError"))
        if op['op'] == 'fill' and 'c' in op['t'] and op['t']['c'] in dumps and o['ok']:
            before, after = dumps[op['t']['c']], o['out'][0][1]
            q, b = dsl.qty_val(op['q']), op['q']['b']
            got = histcheck.measure(subs, after, b)
            if abs(got - q) > abs(q) * F(1, 10**7) * k + F(1, 10**12):
                fails.append((i, f"fill_to {dsl.qty_str(op['q'])}: the result holds {float(got)!r} {b}"))
            for s in set(before['cont']) | set(after['cont']):
                x, y = before['cont'].get(s, F(0)), after['cont'].get(s, F(0))
                if s != op['solvent'] and x != y:
                    fails.append((i, f"fill_to changed substance {s}, which is not the solvent"))
                if s == op['solvent'] and y < x:
                    fails.append((i, "fill_to decreased the solvent"))
            if after['max'] is not None and after['vol'] > after['max'] * (1 + F(1, 10**9)):
                fails.append((i, "fill_to exceeded the capacity"))
        if op['op'] == 'fill' and 'c' in op['t'] and op['t']['c'] in dumps and not o['ok']:
            before = dumps[op['t']['c']]
            q, b = dsl.qty_val(op['q']), op['q']['b']
            cur = histcheck.measure(subs, before, b)
            if q > 0 and abs(cur - q) <= abs(q) * F(1, 10**12) and (before['max'] is None or before['vol'] <= before['max']):
                fails.append((i, f"fill_to {dsl.qty_str(op['q'])} on a container that holds exactly that was refused: {o['exc']} {o.get('msg')}"))
        if op['op'] == 'fill' and 'p' in op['t'] and op['t']['p'] in dumps:
            # a region of a plate: every addressed well reaches the target by solvent alone, or the whole call is refused
            bd = dumps[op['t']['p']]
            cells = [a * bd['cols'] + c for a, c in dsl.region_cells(op['t']['r'], bd['cols'])]
            q, b = dsl.qty_val(op['q']), op['q']['b']
            held = [histcheck.measure(subs, bd['wells'][j], b) for j in cells]
            if o['ok']:
                ad = o['out'][0][1]
                for j in cells:
                    wb, wa = bd['wells'][j], ad['wells'][j]
                    got = histcheck.measure(subs, wa, b)
                    if abs(got - q) > abs(q) * F(1, 10**7) * k + F(1, 10**12):
                        fails.append((i, f"fill_to {dsl.qty_str(op['q'])} on a region was accepted but well {j} holds {float(got)!r} {b}"
                                         + (f" (it held {float(histcheck.measure(subs, wb, b))!r} before)" if histcheck.measure(subs, wb, b) > q else '')))
                        break
                    if wa['max'] is not None and wa['vol'] > wa['max'] * (1 + F(1, 10**9)):
                        fails.append((i, f"fill_to on a region: well {j} exceeds its capacity"))
                        break
                    if any(s != op['solvent'] and wb['cont'].get(s, F(0)) != wa['cont'].get(s, F(0)) for s in set(wb['cont']) | set(wa['cont'])):
                        fails.append((i, f"fill_to on a region changed a substance that is not the solvent (well {j})"))
                        break
            elif q > 0 and all(h < q * (1 - F(1, 10**4)) for h in held) and o['exc'] == 'ValueError':
                pass      # (whether it fits the wells' capacity is judged by the correspondence with the model and by c03)
    return fails + oracles.c03(prog, obs, impl)


def fill_boundary_cases(chk):
    """directed: fill_to the quantity already held (a container made with it, one that received it by transfers: nothing to add, accepted);
    plate regions with a target above the wells' capacity, below what one of the wells holds (both refused as a whole), and a feasible one"""
    q = lambda v, p, b: {'v': v, 'p': p, 'b': b}
    out = []
    g = gen.Gen(random.Random(chk.seed * 100003 + 119000), nsubs=9)
    for init, target, solvent in (([(1, q('50', 'u', 'L'))], q('50', 'u', 'L'), 1), ([(2, q('100', 'u', 'L'))], q('100', 'u', 'L'), 2),
                                  ([(1, q('3', 'm', 'L'))], q('3', 'm', 'L'), 2)):
        op = {'op': 'newc', 'out': g.fresh(), 'name': g.name(), 'max': q('5', 'm', 'L'), 'init': init}
        if g.emit(op, 'fillsame:newc')['ok']:
            g.emit({'op': 'fill', 't': {'c': op['out']}, 'solvent': solvent, 'q': target, 'out': g.fresh()}, 'boundary:fill-to-current')
    out.append(g)
    g = gen.Gen(random.Random(chk.seed * 100003 + 119001), nsubs=9)
    stock = {'op': 'newc', 'out': g.fresh(), 'name': g.name(), 'init': [(1, q('20', 'm', 'L')), (4, q('100', 'm', 'g'))]}
    g.emit(stock, 'fillp:newc')
    g.containers.append(stock['out'])
    p = g.new_plate(rows=2, cols=3, max_ul=200)
    whole = {'rect': [[0, 1], [0, 1, 2]]}
    s1, p1 = g.fresh(), g.fresh()
    g.emit({'op': 'transfer', 'src': {'c': stock['out']}, 'dst': {'p': p, 'r': whole}, 'q': q('10', 'u', 'L'), 'osrc': s1, 'odst': p1}, 'fillp:load')
    s2, p2 = g.fresh(), g.fresh()
    g.emit({'op': 'transfer', 'src': {'c': s1}, 'dst': {'p': p1, 'r': {'rect': [[0], [0]]}}, 'q': q('50', 'u', 'L'), 'osrc': s2, 'odst': p2}, 'fillp:load')
    cap = 200.0      # uL
    for r, target, tag in ((whole, q(gen.dec(cap * 1.25, 3), 'u', 'L'), 'fillp:over-capacity'), (whole, q('50', 'u', 'L'), 'fillp:below-one-well'),
                           ({'rect': [[1], [0, 1, 2]]}, q(gen.dec(cap * 0.5, 3), 'u', 'L'), 'fillp:ok'), ({'list': [[0, 0], [1, 1]]}, q('30', 'u', 'L'), 'fillp:below-one-well'),
                           ({'rect': [[0], [1, 2]]}, q('15', 'm', 'g'), 'fillp:ok')):
        g.emit({'op': 'fill', 't': {'p': p2, 'r': r}, 'solvent': 1, 'q': target, 'out': g.fresh()}, tag)
    out.append(g)
    return out


def make_cases(chk):
    n = 60 if chk.tier == 'quick' else 600
    gens = []
    for i in range(n):
        rng = random.Random(chk.seed * 100003 + 110000 + i)
        g = gen.Gen(rng)
        # a few containers, some with a capacity; a short history so that states are 'reachable', then dilutions and fills
        for _ in range(rng.randint(2, 3)):
            g.new_container(nsub=rng.choice([2, 2, 3, 4]), max_ml=rng.choice([None, None, 60, 500]))
        for _ in range(rng.randint(0, 3)):
            g.transfer_cc()
        if i % 4 == 3:
            # trace solutes (pmol .. nmol) in an ordinary volume: nM-scale targets.  Made AFTER the transfers: the model does not round,
            # and a 1e-10 umol rounding of a 1e-5 umol solute is amplified by the dilution it determines (correspondence only; the oracle is exact)
            liq = g.sub(kind=('Liquid',))
            sol = g.sub(kind=('Solid', 'Liquid'), notin=(liq['id'],))
            if liq and sol:
                init = [(liq['id'], gen.pick_qty(rng, rng.uniform(0.005, 0.02), 'L', sig=2)),
                        (sol['id'], {'v': gen.dec(rng.choice([0.0014, 0.0126, 0.34, 7.5, 60]) * rng.uniform(0.5, 2), 3), 'p': 'n', 'b': 'mol'})]
                op = {'op': 'newc', 'out': g.fresh(), 'name': g.name(), 'init': init}
                if g.emit(op, 'newc:trace')['ok']:
                    g.containers.append(op['out'])
                    g.containers = [op['out']] * 3 + g.containers     # dilute it preferentially
        for _ in range(rng.randint(3, 7)):
            if rng.random() < 0.65:
                add_dilute(g, rng)
            else:
                rel = rng.choice([1.2, 1.5, 3, 0.6, 0.9, 0.98, 0.995])     # a target just below the current quantity is as unreachable as a far one
                g.fill(target='c', rel=rel, sig=4 if rel > 0.95 and rel < 1 else 2)
        gens.append(g)
    return gen.twin_lot_cases(chk.seed, 'fill') + exact_capacity_dilutions(chk) + nanolitre_dilutions(chk) + fill_boundary_cases(chk) + gens


def nanolitre_dilutions(chk):
    """directed: dilutions of nanolitre droplets (the scale of a 1536-well plate): 20 nL of 1 M to 0.75 M, 40 nL of 10 mg/mL to 9 mg/mL"""
    q = lambda v, p, b: {'v': v, 'p': p, 'b': b}
    out = []
    for i, (vol, salt, conc) in enumerate((('20', q('20', 'n', 'mol'), {'s': 'M', 'v': '0.75'}),
                                         ('40', q('0.4', 'u', 'g'), {'v': '9', 'np': 'm', 'nb': 'g', 'dp': 'm', 'db': 'L'}),
                                         ('250', q('50', 'n', 'mol'), {'v': '0.15', 'np': '', 'nb': 'mol', 'dp': '', 'db': 'L'}))):
        g = gen.Gen(random.Random(chk.seed * 100003 + 118000 + i), nsubs=9)
        op = {'op': 'newc', 'out': g.fresh(), 'name': g.name(), 'init': [(1, q(vol, 'n', 'L')), (4, salt)]}
        if g.emit(op, 'nanolitre:newc')['ok']:
            g.emit({'op': 'dilute', 'v': op['out'], 'solute': 4, 'c': conc, 'solvent': 1, 'out': g.fresh()}, 'nanolitre:dilute')
        out.append(g)
    return out


def exact_capacity_dilutions(chk):
    """directed: dilutions that fill the container exactly (short decimals: the diluted volume equals the capacity in Q): accepted;
    and the same in a container one per cent smaller: refused"""
    q = lambda v, p, b: {'v': v, 'p': p, 'b': b}
    out = []
    for i, (cap, v1, v2, target, tight) in enumerate((('100', '25', '25', '0.25', '99'), ('200', '50', '50', '0.25', '198'), ('1000', '100', '400', '0.1', '990'),
                                                    ('2000', '500', '500', '0.25', '1980'), ('300', '30', '70', '0.1', '297'))):
        g = gen.Gen(random.Random(chk.seed * 100003 + 117000 + i), nsubs=9)
        conc = {'v': target, 'np': '', 'nb': 'L', 'dp': '', 'db': 'L'}
        for mx, tag in ((cap, 'boundary:dilute-to-capacity'), (tight, 'dilute:over-capacity')):
            op = {'op': 'newc', 'out': g.fresh(), 'name': g.name(), 'max': q(mx, 'u', 'L'), 'init': [(2, q(v1, 'u', 'L')), (1, q(v2, 'u', 'L'))]}
            if g.emit(op, 'capacity:newc')['ok']:
                g.emit({'op': 'dilute', 'v': op['out'], 'solute': 2, 'c': conc, 'solvent': 1, 'out': g.fresh()}, tag)
        out.append(g)
    return out


def add_dilute(g, rng, keep=0.3, named=0.4):
    """one dilution of a reachable container; with probability `keep` the undiluted value stays in the pool as well (values are
    immutable: it may be diluted or used again), with probability `named` the call passes name="""
    cands = []
    for v in g.containers:
        c = g.impl.env[v]
        for s, a in c.contents.items():
            if not s.is_enzyme() and a > 0 and len(c.contents) >= 2:
                cands.append((v, s))
    if not cands:
        return
    v, s = rng.choice(cands)
    c = g.impl.env[v]
    sid = dsl.sid_of(g.impl, s)
    solvent = g.sub(kind=('Liquid', 'Liquid', 'Solid'), notin=(sid,))
    if solvent is None:
        return
    nu, du = rng.choice(CONC_FORMS)
    if nu.endswith('L') and s.is_solid() and rng.random() < 0.5:
        nu = 'g'
    dump = g.impl.dump(c)
    cur = conc_value(g.subs, dump, sid, nu, du)
    if not cur:
        return
    f = rng.choice([0.2, 0.5, 0.8, 0.95, 1.3, 2.0])
    val = gen.dec(float(cur * F(f)), 3)
    def sp(u):
        for b in ('mol', 'L', 'g'):
            if u.endswith(b):
                return u[:-len(b)], b
    (np_, nb), (dp, db) = sp(nu), sp(du)
    doc = {'v': val, 'np': np_, 'nb': nb, 'dp': dp, 'db': db}
    if (nu, du) == ('mol', 'L') and rng.random() < 0.5:
        doc = {'s': 'M', 'v': val}
    if (nu, du) == ('mol', 'kg') and rng.random() < 0.5:
        doc = {'s': 'm', 'v': val}
    op = {'op': 'dilute', 'v': v, 'solute': sid, 'c': doc, 'solvent': solvent['id'], 'out': g.fresh()}
    if rng.random() < named:
        op['named'] = True
    o = g.emit(op, f"dilute:{nu}/{du}" + (':named' if op.get('named') else ''))
    if o['ok']:
        if rng.random() < keep:
            g.containers.append(op['out'])
        else:
            g.replace(g.containers, v, op['out'])


def nontrivial(prog, obs):
    keys = []
    for op, o in zip(prog['ops'], obs):
        if op['op'] == 'dilute':
            c = op['c']
            keys.append(('dilute', c.get('s') or (c['np'] + c['nb'], c['dp'] + c['db']), o['ok']))
        if op['op'] == 'fill':
            keys.append(('fill', op['q']['b'], op['q']['p'], o['ok']))
    return keys


def run(chk, gate, status):
    gens = make_cases(chk)
    chk.assumptions += ["dilution of enzymes is declared unsupported by the library and is not generated; enzymes occur as bystanders",
                        "targets within 1e-4 (relative) of the current concentration are not judged for accept/refuse"]
    cov = histcheck.run(chk, gens, oracle, 'C11', RULE, nontrivial)
    cov['operations_under_configuration_variants'] = histcheck.variants(chk, gens, oracle, 'C11v', limit=10 if chk.tier == 'quick' else 60)
    return cov


def replay(path):
    return histcheck.replay(path, oracle)
