"""C01 -- transfers conserve every substance.  Correspondence on random histories (containers, plates, every pairing
form, every unit and prefix, same-plate regions); oracle: per-substance sums over source and destination before vs
after each transfer, and identity of every well that is neither source nor destination."""
import random
from fractions import Fraction as F
import common, dsl, gen, histcheck
from histcheck import containers_of, all_dumps

RULE = ('non-trivial = a successful transfer that moves a non-zero amount of >= 2 substances; distinct by '
        '(pairing form, unit, prefix, substance kinds present in the source, source/destination shape)')


def form_of(op):
    return ('c' if 'c' in op['src'] else 'p') + '->' + ('c' if 'c' in op['dst'] else 'p')


def var_of(ref):
    return ref['c'] if 'c' in ref else ref['p']


def cells_of(ref, dump):
    if 'c' in ref:
        return None
    return [a * dump['cols'] + b for a, b in dsl.region_cells(ref['r'], dump['cols'])]


def sums(dumps):
    t = {}
    for d in dumps:
        for c in containers_of(d):
            for k, a in c['cont'].items():
                t[k] = t.get(k, F(0)) + a
    return t


def oracle(prog, obs, impl):
    fails = []
    dumps = {}
    tol = F(1e-7) * F(histcheck.tol_scale(prog))
    for i, (op, o) in enumerate(zip(prog['ops'], obs)):
        if o['ok'] and op['op'] == 'transfer':
            sv, dv = var_of(op['src']), var_of(op['dst'])
            before = [dumps[sv]] + ([dumps[dv]] if dv != sv else [])
            out = dict(o['out'])
            after = [out[op['osrc']]] + ([out[op['odst']]] if dv != sv else [])
            b, a = sums(before), sums(after)
            for k in set(b) | set(a):
                x, y = b.get(k, F(0)), a.get(k, F(0))
                if abs(x - y) > tol + F(1e-9) * abs(x):
                    fails.append((i, f"substance {k} not conserved by transfer: {float(x)!r} before, {float(y)!r} after "
                                     f"({form_of(op)}, {dsl.qty_str(op['q'])})"))
            # frame: wells that are neither source nor destination are identical
            for ref, ov in ((op['src'], op['osrc']), (op['dst'], op['odst'])):
                if 'p' in ref:
                    bd, ad = dumps[ref['p']], out[ov]
                    touched = set(cells_of(ref, bd))
                    if sv == dv:
                        touched |= set(cells_of(op['src'], bd)) | set(cells_of(op['dst'], bd))
                    for j, (wb, wa) in enumerate(zip(bd['wells'], ad['wells'])):
                        if j not in touched and (wb['cont'] != wa['cont'] or wb['vol'] != wa['vol']):
                            fails.append((i, f"well {j} is neither source nor destination but changed"))
        if o['ok']:
            for v, x in o['out']:
                dumps[v] = x
    return fails


def nontrivial(prog, obs):
    keys = []
    dumps = {}
    kinds = {s['id']: s['kind'][0] for s in prog['subs']}
    for op, o in zip(prog['ops'], obs):
        if o['ok'] and op['op'] == 'transfer':
            src = dumps[var_of(op['src'])]
            cs = containers_of(src)
            if 'p' in op['src']:
                cs = [cs[j] for j in cells_of(op['src'], src)]
            moved = {k for c in cs for k, a in c['cont'].items() if a > 0}
            if len(moved) >= 2 and F(op['q']['v']) > 0:
                shp = lambda r: ('c' if 'c' in r else ('list%d' % len(r['r']['list']) if 'list' in r['r'] else
                                                     '%dx%d' % (len(r['r']['rect'][0]), len(r['r']['rect'][1]))))
                keys.append((form_of(op), op['q']['b'], op['q']['p'], ''.join(sorted({kinds[k] for k in moved})),
                             shp(op['src']), shp(op['dst']), var_of(op['src']) == var_of(op['dst'])))
        if o['ok']:
            for v, x in o['out']:
                dumps[v] = x
    return keys


def make_cases(chk):
    n = 60 if chk.tier == 'quick' else 600
    hi = 12 if chk.tier == 'quick' else 16     # the model's exact rationals grow with the length of a history: more histories, not longer ones
    w = {'newc': 1, 'newp': 0.4, 'cc': 4, 'cp': 3, 'pc': 3, 'pp': 5, 'remove': 0.7, 'fill': 0.7, 'bad': 0.8}
    gens = []
    for i in range(n):
        rng = random.Random(chk.seed * 100003 + i)
        gens.append(gen.history(rng, rng.randint(6, hi), weights=w, trace=(i % 6 == 5)))
    return gen.twin_plate_cases(chk.seed) + gen.whole_source_cases(chk.seed) + gen.repeated_well_cases(chk.seed) + gen.twin_lot_cases(chk.seed) + gen.long_decimal_cases(chk.seed) + gen.big_plate_cases(chk.seed) + gens


def runtime_precision_probe():
    """internal_precision raised (and moles stored in mol) in a running session, as one would for sub-nanomole work: a transfer of half
    a stock, of all of it, and a dispensing into wells conserve a solute present at 0.12 nmol to the precision now configured"""
    from pyplate import Substance, Container, Plate
    from pyplate.pyplate import config
    fails = []
    saved = (config.internal_precision, config.moles_storage_unit)
    try:
        config.internal_precision, config.moles_storage_unit = 15, 'mol'
        w = Substance.liquid('water', 18.0153, 1)
        atp = Substance.solid('ATP', 507.18)
        def total(s, *objs):
            t = F(0)
            for o in objs:
                for c in ([o] if isinstance(o, Container) else list(o.wells.flatten())):
                    t += F(c.contents.get(s, 0))
            return t
        stock = Container('stock', '10 mL', [(w, '1 mL'), (atp, '0.12 nmol')])
        tube = Container('tube', '10 mL')
        plate = Plate('p', '500 uL', rows=2, columns=3)
        for label, f, before in (("Container.transfer(stock, tube, '500 uL')", lambda: Container.transfer(stock, tube, '500 uL'), (stock, tube)),
                                 ("Container.transfer(stock, tube, '1 mL')", lambda: Container.transfer(stock, tube, '1 mL'), (stock, tube)),
                                 ("Plate.transfer(stock, plate, '100 uL')", lambda: Plate.transfer(stock, plate, '100 uL'), (stock, plate))):
            try:
                after = f()
            except Exception as e:  # noqa
                fails.append(f"with internal_precision = 15 and moles stored in mol (set in a running session), {label} raised {type(e).__name__}: {e}")
                continue
            for s in (atp, w):
                b, a = total(s, *before), total(s, *after)
                if abs(a - b) > F(1, 10**13) + abs(b) * F(1, 10**12):
                    fails.append(f"with internal_precision = 15 and moles stored in mol (set in a running session), {label}: {s.name} {float(b)!r} mol before, {float(a)!r} mol after")
    finally:
        config.internal_precision, config.moles_storage_unit = saved
    return fails


def run(chk, gate, status):
    gens = make_cases(chk)
    chk.assumptions += ["amounts are compared within 1e-8 storage units per operation (x1000/density for enzymes) and 2e-8 relative",
                        "regions are passed to the model as resolved index lists (the selector grammar is C13's subject)"]
    cov = histcheck.run(chk, gens, oracle, 'C01', RULE, nontrivial)
    cov['operations_under_configuration_variants'] = histcheck.variants(chk, gens, oracle, 'C01v', limit=8 if chk.tier == 'quick' else 60)
    # recipe steps conserve as well: baked objects against the same transfers applied directly (directed recipes with transfers inside
    # one plate -- region to region, one well to several, a region pooled into a well -- and generated ones with plate steps)
    import recipes
    from props import C08
    n = 10 if chk.tier == 'quick' else 100
    cases, i = [(recipes.Replayed(p), []) for p in recipes.directed_recipes()], 0
    while len(cases) < n + 7 and i < 10 * n:
        rng = random.Random(chk.seed * 100003 + 11000 + i)
        i += 1
        rg = recipes.RecipeGen(rng, rng.randint(3, 9), allow_d13=False, with_solutions=False)
        if sum(1 for st in rg.steps if st['op'] == 'transfer' and ('p' in st['src'] or 'p' in st['dst'])) >= 2:
            cases.append((rg, []))

    def recipe_oracle(prog, rg, out, qres):
        f, known = C08.oracle(prog, rg, out, qres)
        return ['transfers written as recipe steps: ' + x for x in f], known
    rc = recipes.check(chk, 'C01r', cases, recipe_oracle, RULE, C08.nontrivial)
    cov['recipe_clause'] = {k: rc[k] for k in ('programs', 'distinct_nontrivial', 'disagreements_checked', 'oracle_failures')}
    for k in ('evaluations', 'programs', 'disagreements_checked', 'oracle_failures'):
        cov[k] += rc[k]
    for msg in runtime_precision_probe()[:2]:
        cov['oracle_failures'] += 1
        chk.violation(msg, {'kind': 'runtime-precision'})
    return cov


def replay(path):
    import json
    if 'recipe' in json.load(open(path)):
        import recipes
        from props import C08
        return recipes.replay(path, C08.oracle)
    if json.load(open(path)).get('kind') == 'runtime-precision':
        f = runtime_precision_probe()
        for m in f:
            print('PROPERTY FAILS:', m)
        print('property', 'FAILS' if f else 'HOLDS', 'on this input')
        return 1 if f else 0
    return histcheck.replay(path, oracle)
