"""C01 -- transfers conserve every substance.  Correspondence on random histories (containers, plates, every pairing
form, every unit and prefix, same-plate regions); oracle: per-substance sums over source and destination before vs
after each transfer, and identity of every well that is neither source nor destination."""
import random
from fractions import Fraction as F
import common, dsl, gen, histcheck
from histcheck import containers_of, all_dumps

RULE = ('non-trivial = a successful transfer that moves a non-zero amount of >= 2 substances; distinct by '
        '(pairing form, unit, prefix, substance kinds present in the source, source/destination shape)')


def form_of(op):
    return ('c' if 'c' in op['src'] else 'p') + '->' + ('c' if 'c' in op['dst'] else 'p')


def var_of(ref):
    return ref['c'] if 'c' in ref else ref['p']


def cells_of(ref, dump):
    if 'c' in ref:
        return None
    return [a * dump['cols'] + b for a, b in dsl.region_cells(ref['r'], dump['cols'])]


def sums(dumps):
    t = {}
    for d in dumps:
        for c in containers_of(d):
            for k, a in c['cont'].items():
                t[k] = t.get(k, F(0)) + a
    return t


def oracle(prog, obs, impl):
    fails = []
    dumps = {}
    tol = F(1e-7) * F(histcheck.tol_scale(prog))
    for i, (op, o) in enumerate(zip(prog['ops'], obs)):
        if o['ok'] and op['op'] == 'transfer':
            sv, dv = var_of(op['src']), var_of(op['dst'])
            before = [dumps[sv]] + ([dumps[dv]] if dv != sv else [])
            out = dict(o['out'])
            after = [out[op['osrc']]] + ([out[op['odst']]] if dv != sv else [])
            b, a = sums(before), sums(after)
            for k in set(b) | set(a):
                x, y = b.get(k, F(0)), a.get(k, F(0))
                if abs(x - y) > tol + F(1e-9) * abs(x):
                    fails.append((i, f"substance {k} not conserved by transfer: {float(x)!r} before, {float(y)!r} after "
                                     f"({form_of(op)}, {dsl.qty_str(op['q'])})"))
            # frame: wells that are neither source nor destination are identical
            for ref, ov in ((op['src'], op['osrc']), (op['dst'], op['odst'])):
                if 'p' in ref:
                    bd, ad = dumps[ref['p']], out[ov]
                    touched = set(cells_of(ref, bd))
                    if sv == dv:
                        touched |= set(cells_of(op['src'], bd)) | set(cells_of(op['dst'], bd))
                    for j, (wb, wa) in enumerate(zip(bd['wells'], ad['wells'])):
                        if j not in touched and (wb['cont'] != wa['cont'] or wb['vol'] != wa['vol']):
                            fails.append((i, f"well {j} is neither source nor destination but changed"))
        if o['ok']:
            for v, x in o['out']:
                dumps[v] = x
    return fails


def nontrivial(prog, obs):
    keys = []
    dumps = {}
    kinds = {s['id']: s['kind'][0] for s in prog['subs']}
    for op, o in zip(prog['ops'], obs):
        if o['ok'] and op['op'] == 'transfer':
            src = dumps[var_of(op['src'])]
            cs = containers_of(src)
            if 'p' in op['src']:
                cs = [cs[j] for j in cells_of(op['src'], src)]
            moved = {k for c in cs for k, a in c['cont'].items() if a > 0}
            if len(moved) >= 2 and F(op['q']['v']) > 0:
                shp = lambda r: ('c' if 'c' in r else ('list%d' % len(r['r']['list']) if 'list' in r['r'] else
                                                     '%dx%d' % (len(r['r']['rect'][0]), len(r['r']['rect'][1]))))
                keys.append((form_of(op), op['q']['b'], op['q']['p'], ''.join(sorted({kinds[k] for k in moved})),
                             shp(op['src']), shp(op['dst']), var_of(op['src']) == var_of(op['dst'])))
        if o['ok']:
            for v, x in o['out']:
                dumps[v] = x
    return keys


def make_cases(chk):
    n = 60 if chk.tier == 'quick' else 600
    hi = 12 if chk.tier == 'quick' else 16     # the model's exact rationals grow with the length of a history: more histories, not longer ones
    w = {'newc': 1, 'newp': 0.4, 'cc': 4, 'cp': 3, 'pc': 3, 'pp': 5, 'remove': 0.7, 'fill': 0.7, 'bad': 0.8}
    gens = []
    for i in range(n):
        rng = random.Random(chk.seed * 100003 + i)
        gens.append(gen.history(rng, rng.randint(6, hi), weights=w, trace=(i % 6 == 5)))
    return gen.twin_plate_cases(chk.seed) + gen.whole_source_cases(chk.seed) + gen.repeated_well_cases(chk.seed) + gen.twin_lot_cases(chk.seed) + gen.long_decimal_cases(chk.seed) + gen.big_plate_cases(chk.seed) + gens


def run(chk, gate, status):
    gens = make_cases(chk)
    chk.assumptions += ["amounts are compared within 1e-8 storage units per operation (x1000/density for enzymes) and 2e-8 relative",
                        "regions are passed to the model as resolved index lists (the selector grammar is C13's subject)"]
    cov = histcheck.run(chk, gens, oracle, 'C01', RULE, nontrivial)
    cov['operations_under_configuration_variants'] = histcheck.variants(chk, gens, oracle, 'C01v', limit=8 if chk.tier == 'quick' else 60)
    return cov


def replay(path):
    return histcheck.replay(path, oracle)
