"""C05 -- create_solution meets every stated constraint or refuses.
Tie: correspondence (Container.create_solution vs Solve.create_solution / create_solution_c, exact Gaussian elimination
inside Coq).  Oracle: every stated concentration, solute quantity and total quantity is read back from the returned
container with exact fractions; amounts positive; key set = solutes + solvent; with a container solvent the solvent
portion is a uniform aliquot and nothing is lost; requests with no positive solution must raise ValueError."""
import random
from fractions import Fraction as F
import common, dsl, gen, histcheck, oracles

RULE = ('non-trivial = accepted solution with >= 2 positive components whose constraints were all read back, or a refusal of a '
        'request the oracle knows to be infeasible; distinct by (mode, number of solutes, kinds, unit forms, solvent form, accepted)')
PF = dsl.PFX


def sp(u):
    for b in ('mol', 'L', 'g', 'U'):
        if u.endswith(b):
            return u[:-len(b)], b


def conc_forms(kind):
    if kind == 'Enzyme':
        return [('U', 'L'), ('U', 'mL'), ('kU', 'L'), ('U', 'g'), ('U', 'kg'), ('U', 'mol'), ('g', 'L'), ('mg', 'mL'), ('g', 'g')]
    base = [('mol', 'L'), ('mmol', 'L'), ('g', 'L'), ('mg', 'mL'), ('g', 'g'), ('mg', 'g'), ('mol', 'mol'), ('mol', 'kg'), ('g', 'mol'), ('mmol', 'g')]
    if kind == 'Liquid':
        base += [('L', 'L'), ('mL', 'L'), ('uL', 'mL'), ('L', 'g')]
    return base


def qty_units(kind):
    return {'Enzyme': ['U', 'kU', 'mg', 'g'], 'Solid': ['g', 'mg', 'mol', 'mmol'], 'Liquid': ['mL', 'uL', 'g', 'mol', 'mmol']}[kind]


def value_of(subs, amounts, sid, nu, du=None):
    """exact value of substance sid's amount (or concentration) for amounts = {sid: moles or U}"""
    byid = {s['id']: s for s in subs}
    dump = {'cont': {k: (v if byid[k]['kind'] == 'Enzyme' else v * 10**6) for k, v in amounts.items()}}
    (pn, nb) = sp(nu)
    num = histcheck.amount_in(byid[sid], dump['cont'][sid], nb) / PF[pn][1]
    if du is None:
        return num
    pd, db = sp(du)
    return num / (histcheck.measure(subs, dump, db) / PF[pd][1])


def total_of(subs, amounts, u):
    byid = {s['id']: s for s in subs}
    dump = {'cont': {k: (v if byid[k]['kind'] == 'Enzyme' else v * 10**6) for k, v in amounts.items()}}
    p, b = sp(u)
    return histcheck.measure(subs, dump, b) / PF[p][1]


def make_request(g, rng, solutes, solvent, amounts, mode, perturb=None):
    """a request document whose stated values are those of the mixture `amounts` (rounded to 4 significant digits for the
    values that enter the solve; exact decimals where consistency between redundant values is needed)"""
    subs = g.subs
    kinds = {s['id']: s['kind'] for s in subs}
    m = {}
    if mode in ('ct', 'cq'):
        cs = []
        for sid in solutes:
            nu, du = rng.choice(conc_forms(kinds[sid]))
            v = value_of(subs, amounts, sid, nu, du)
            np_, nb = sp(nu)
            dp, db = sp(du)
            doc = {'v': gen.dec(float(v), 4), 'np': np_, 'nb': nb, 'dp': dp, 'db': db}
            if (nu, du) == ('mol', 'L') and rng.random() < 0.5:
                doc = {'s': 'M', 'v': gen.dec(float(v), 4)}
            elif (nu, du) == ('mol', 'kg') and rng.random() < 0.5:
                doc = {'s': 'm', 'v': gen.dec(float(v), 4)}
            elif rng.random() < 0.15:
                w = rng.choice(['10', '100', '2.5'])
                doc['v'] = gen.dec(float(v * F(w)), 4)
                doc['dv'] = w
            cs.append(doc)
        m['cs'] = cs
    if mode in ('cq', 'qt'):
        qs = []
        for sid in (solutes if mode == 'qt' else solutes[:1]):
            u = rng.choice(qty_units(kinds[sid]))
            p, b = sp(u)
            qs.append({'v': gen.dec(float(value_of(subs, amounts, sid, u)), 4), 'p': p, 'b': b})
        m['qs'] = qs
    if mode in ('ct', 'qt'):
        u = rng.choice(['mL', 'L', 'g', 'mg', 'mol', 'mmol', 'uL'])
        p, b = sp(u)
        m['total'] = {'v': gen.dec(float(total_of(subs, amounts, u)), 4), 'p': p, 'b': b}
    return m


def oracle(prog, obs, impl):
    fails = []
    subs = prog['subs']
    byid = {s['id']: s for s in subs}
    for i, op, o, dumps in oracles.walk(prog, obs):
        if op['op'] in ('solution', 'solutionc') and not o['ok'] and o['exc'] == 'AssertionError':
            fails.append((i, o.get('msg', 'the list of solutes was changed by an earlier call')))       # raised by the harness (dsl.exec_op)
        if op['op'] not in ('solution', 'solutionc') or not o['ok']:
            continue
        res = dict(o['out'])[op['out']]
        m = op['mode']
        solutes = op['solutes']
        tol = F(1, 10**6)
        # positivity and key set
        if op['op'] == 'solution':
            want = set(solutes) | {op['solvent']}
            if set(res['cont']) != want:
                fails.append((i, f"the solution contains substances {sorted(res['cont'])}, named are {sorted(want)}"))
        else:
            before = dumps[op['solventv']]
            after = dict(o['out'])[op['osolv']]
            want = set(solutes) | set(before['cont'])
            if set(res['cont']) - want:
                fails.append((i, f"the solution contains {sorted(set(res['cont']) - want)}, neither a named solute nor part of the solvent container"))
            # nothing lost: solvent container before = after + what went into the solution (solutes are added fresh)
            for s, x in before['cont'].items():
                got = after['cont'].get(s, F(0)) + res['cont'].get(s, F(0))
                if s in solutes:
                    continue
                if abs(got - x) > abs(x) * F(1, 10**8) + F(1, 10**7):
                    fails.append((i, f"substance {s} of the solvent container: {float(x)!r} before, {float(got)!r} after in container + solution"))
            # the solvent portion is an aliquot: every substance reduced by the same fraction
            fr = [(x - after['cont'].get(s, F(0))) / x for s, x in before['cont'].items() if x > F(1, 10**3)]
            if fr and max(fr) - min(fr) > F(1, 10**6):
                fails.append((i, f"the solvent portion is not a uniform aliquot of the solvent container: fractions {[float(x) for x in fr]}"))
        for s, x in res['cont'].items():
            if x <= 0 and s in solutes:
                fails.append((i, f"non-positive amount {float(x)!r} of solute {s}"))
            if x <= 0 and op['op'] == 'solution' and s == op['solvent']:
                fails.append((i, f"non-positive amount {float(x)!r} of the solvent"))
        # every stated value, read back
        for k, sid in enumerate(solutes):
            if 'cs' in m:
                c = m['cs'][k] if len(m['cs']) > 1 or len(solutes) == 1 else m['cs'][0]
                tv, nb, db = dsl.conc_parse(c)
                got = oracles.conc_def(subs, res, sid, '%s/%s' % (nb, db)) if not (nb, db) == ('mol', 'L') else oracles.conc_def(subs, res, sid, 'M')
                if abs(got - tv) > abs(tv) * tol + F(2, 10**10):
                    fails.append((i, f"stated concentration {dsl.conc_str(c)} of solute {sid}: the solution has {float(got)!r} {nb}/{db} (target {float(tv)!r})"))
            if 'qs' in m and k < len(m['qs']):
                q = m['qs'][k]
                got = histcheck.amount_in(byid[sid], res['cont'].get(sid, F(0)), q['b'])
                tv = dsl.qty_val(q)
                if abs(got - tv) > abs(tv) * tol:
                    fails.append((i, f"stated quantity {dsl.qty_str(q)} of solute {sid}: the solution holds {float(got)!r} {q['b']}"))
        if 'total' in m:
            q = m['total']
            got = histcheck.measure(subs, res, q['b'])
            tv = dsl.qty_val(q)
            if abs(got - tv) > abs(tv) * tol:
                fails.append((i, f"stated total quantity {dsl.qty_str(q)}: the solution holds {float(got)!r} {q['b']}"))
    # requests marked infeasible by the generator must be refused with ValueError
    for i, (op, o) in enumerate(zip(prog['ops'], obs)):
        if op.get('expect') == 'infeasible' and (o['ok'] or o['exc'] not in ('ValueError', 'LinAlgError')):
            fails.append((i, f"a request with no positive solution ({op.get('why')}) {'was accepted' if o['ok'] else 'raised ' + o['exc']}"))
        if op.get('expect') == 'feasible' and not o['ok']:
            fails.append((i, f"a request met by a positive mixture was refused: {o['exc']} {o.get('msg')}"))
    return fails


def twin_lot_cases(chk):
    """two lots of one enzyme (same name, different specific activity) used one after the other in one process"""
    out = []
    water = dsl.LIBRARY[0]
    lotA = dsl.LIBRARY[5]
    lotB = dsl.TWIN_LOT
    for k, (first, second) in enumerate([(lotA, lotB), (lotB, lotA)]):
        rng = random.Random(chk.seed * 31 + k)
        g = gen.Gen(rng, nsubs=1)
        g.subs = [water, lotA, lotB]
        g.impl = dsl.Impl(g.subs)
        for lot in (first, second):
            for mode in ('ct', 'qt', 'cq'):
                amounts = {1: F('0.5'), lot['id']: F('100000')}
                m = {}
                if mode in ('ct', 'cq'):
                    v = value_of(g.subs, amounts, lot['id'], 'U', 'g')
                    m['cs'] = [{'v': gen.dec(float(v), 5), 'np': '', 'nb': 'U', 'dp': '', 'db': 'g'}]
                if mode in ('cq', 'qt'):
                    m['qs'] = [{'v': gen.dec(float(value_of(g.subs, amounts, lot['id'], 'g')), 5), 'p': '', 'b': 'g'}]
                if mode in ('ct', 'qt'):
                    m['total'] = {'v': gen.dec(float(total_of(g.subs, amounts, 'g')), 5), 'p': '', 'b': 'g'}
                op = {'op': 'solution', 'out': g.fresh(), 'name': g.name(), 'solutes': [lot['id']], 'solvent': 1, 'mode': m, 'expect': 'feasible'}
                g.emit(op, 'solution:twin-lot')
        out.append(g)
    return out


def make_cases(chk):
    n = 70 if chk.tier == 'quick' else 700
    gens = []
    for i in range(n):
        rng = random.Random(chk.seed * 100003 + 50000 + i)
        g = gen.Gen(rng, nsubs=rng.randint(4, 6))
        for _ in range(rng.randint(1, 2)):
            g.new_container(nsub=rng.choice([1, 2, 2]))
        kinds = {s['id']: s['kind'] for s in g.subs}
        liquids = [s['id'] for s in g.subs if s['kind'] == 'Liquid']
        for _ in range(rng.randint(2, 4)):
            solvent = rng.choice(liquids)
            pool = [s['id'] for s in g.subs if s['id'] != solvent]
            rng.shuffle(pool)
            nsol = rng.choice([1, 1, 2, 2, 3])
            solutes = pool[:nsol]
            # the mixture we aim at: moles (U for enzymes)
            amounts = {solvent: F(gen.dec(rng.uniform(0.05, 0.6), 2))}
            for sid in solutes:
                if kinds[sid] == 'Enzyme':
                    amounts[sid] = F(gen.dec(rng.uniform(5, 200), 2))
                else:
                    amounts[sid] = F(gen.dec(rng.uniform(0.001, 0.03), 2))
            mode = rng.choice(['ct', 'ct', 'qt', 'cq']) if nsol == 1 else rng.choice(['ct', 'ct', 'qt'])
            m = make_request(g, rng, solutes, solvent, amounts, mode)
            op = {'out': g.fresh(), 'name': g.name(), 'solutes': solutes, 'mode': m}
            use_container = rng.random() < 0.3
            r = rng.random()
            if r < 0.05 and ('cs' in m or 'qs' in m):
                # exactly on the edge of the feasible set: a solute asked for in no amount (the result must hold positive amounts)
                if 'cs' in m:
                    m['cs'][0]['v'] = '0'
                else:
                    m['qs'][0]['v'] = '0'
                op.update(expect='infeasible', why='a named solute in zero amount')
            elif r < 0.2:     # infeasible: a concentration the solvent amount cannot accommodate / a total smaller than the solutes
                if 'total' in m and 'qs' in m:
                    m['total']['v'] = gen.dec(float(F(m['total']['v']) * F(1, 1000)), 2)
                    # infeasible only if the solutes alone exceed the new total in ITS unit (an enzyme adds nothing to a total in moles)
                    tu = m['total']['p'] + m['total']['b']
                    if sum(value_of(g.subs, amounts, sid, tu) for sid in solutes) > F(m['total']['v']) * F(101, 100):
                        op.update(expect='infeasible', why='the total quantity is far smaller than the solute quantities')
                elif 'cs' in m and m['cs'][0].get('nb', 'mol') == m['cs'][0].get('db', 'L') and 's' not in m['cs'][0] and not m['cs'][0].get('dv'):
                    m['cs'][0]['v'] = '1.5'
                    m['cs'][0]['np'] = m['cs'][0]['dp'] = ''
                    op.update(expect='infeasible', why='a fraction above 1')
                elif 'cs' in m:
                    m['cs'][0]['v'] = '-' + m['cs'][0]['v'].lstrip('+')
                    op.update(expect='infeasible', why='a negative concentration')
            elif not use_container:
                op['expect'] = 'feasible'
            if use_container and g.containers:
                cands = [v for v in g.containers if g.impl.env[v].has_liquid() and not any(dsl.sid_of(g.impl, s) in solutes for s in g.impl.env[v].contents)]
                if cands:
                    sv = rng.choice(cands)
                    op.update(op='solutionc', solventv=sv, osolv=g.fresh())
                    op.pop('expect', None) if op.get('expect') == 'feasible' else None
                    o = g.emit(op, 'solution:container-solvent:' + mode)
                    if o['ok']:
                        g.replace(g.containers, sv, op['osolv'])
                        g.containers.append(op['out'])
                    continue
            op.update(op='solution', solvent=solvent)
            o = g.emit(op, f"solution:{mode}:n{nsol}" + (':' + op['expect'] if op.get('expect') else ''))
            if o['ok']:
                g.containers.append(op['out'])
        if i % 3 == 1:
            # concentration AND quantity for two solutes: consistent (accepted, every stated value met) and contradictory in the
            # later quantity (refused), from mole down to nanomole scale
            sol = [s['id'] for s in g.subs if s['kind'] == 'Solid'][:2]
            liq = [s['id'] for s in g.subs if s['kind'] == 'Liquid']
            if len(sol) == 2 and liq:
                qp, cp = rng.choice([('n', 'm'), ('n', 'u'), ('u', 'm'), ('m', ''), ('u', '')])
                v = rng.choice(['10', '25', '4'])
                conc = {'v': rng.choice(['1', '2', '0.5']), 'np': cp, 'nb': 'mol', 'dp': '', 'db': 'L'}
                for factor, expect, why in ((1, 'feasible', None), (rng.choice(['0.5', '2', '1.1']), 'infeasible', 'the quantity of the second solute contradicts its concentration')):
                    m = {'cs': [dict(conc), dict(conc)], 'qs': [{'v': v, 'p': qp, 'b': 'mol'}, {'v': gen.dec(float(F(v) * F(factor)), 3), 'p': qp, 'b': 'mol'}]}
                    op = {'op': 'solution', 'out': g.fresh(), 'name': g.name(), 'solutes': sol, 'solvent': liq[0], 'mode': m, 'expect': expect}
                    if why:
                        op['why'] = why
                    o = g.emit(op, f"solution:cq2:{qp}mol:{expect}")
                    if o['ok']:
                        g.containers.append(op['out'])
        gens.append(g)
    gens += twin_lot_cases(chk)
    return gens


def nontrivial(prog, obs):
    keys = []
    kinds = {s['id']: s['kind'][0] for s in prog['subs']}
    for op, o in zip(prog['ops'], obs):
        if op['op'] in ('solution', 'solutionc'):
            m = op['mode']
            forms = tuple(c.get('s') or (c['np'] + c['nb'] + '/' + c['dp'] + c['db']) for c in m.get('cs', []))
            keys.append((op['op'], tuple(sorted(m)), len(op['solutes']), ''.join(sorted(kinds[s] for s in op['solutes'])), forms,
                         tuple(q['p'] + q['b'] for q in m.get('qs', [])), (m.get('total') or {}).get('b'), o['ok']))
    return keys


def run(chk, gate, status):
    gens = make_cases(chk)
    chk.assumptions += ["stated values are 4-significant-digit decimals of a positive target mixture; read-back tolerance 1e-6 relative (the library's own residual test)",
                        "the container used as solvent is free of the named solutes (known finding D10 otherwise)",
                        "LAPACK is replaced by exact Gaussian elimination in the model; ill-conditioned systems are not generated"]
    cov = histcheck.run(chk, gens, oracle, 'C05', RULE, nontrivial, rtol=1e-7)
    for msg in oracles.wv_runtime_probe()[:2]:
        cov['oracle_failures'] += 1
        chk.violation(msg, {'kind': 'wv-runtime'})
    cov['operations_under_configuration_variants'] = histcheck.variants(chk, gens, oracle, 'C05v', limit=10 if chk.tier == 'quick' else 60)
    return cov


def replay(path):
    import json as _json
    if _json.load(open(path)).get('kind') == 'wv-runtime':
        f = oracles.wv_runtime_probe()
        for m in f:
            print('PROPERTY FAILS:', m)
        print('property', 'FAILS' if f else 'HOLDS', 'on this input')
        return 1 if f else 0
    return histcheck.replay(path, oracle)
