"""C06 -- unit conversions follow molar mass, density and specific activity.
Tie: translator (gen/UnitsGen.v proved equal to Units.v in Props/C06.v) + correspondence over the whole
(kind x from-unit x to-unit) table with every prefix on both sides; oracle = chemistry factor in Fractions."""
import json
from fractions import Fraction as F
import common
from common import qstr, close

PREFIXES = [('n', 'Pn', F(1, 10**9)), ('u', 'Pu', F(1, 10**6)), ('µ', 'Pmu', F(1, 10**6)), ('m', 'Pm', F(1, 1000)),
            ('c', 'Pc', F(1, 100)), ('d', 'Pd', F(1, 10)), ('', 'P0', F(1)), ('da', 'Pda', F(10)), ('k', 'Pk', F(1000)),
            ('M', 'PM', F(10**6))]
BASES = [('U', 'BU'), ('L', 'BL'), ('g', 'BG'), ('mol', 'BMol')]
KINDS = ['Solid', 'Liquid', 'Enzyme']
PARAMS = [  # pairwise coprime generic parameters (mw, density, specific activity U/g)
    {'mw': '58.5', 'dens': '1.25', 'act': '7000'},
    {'mw': '142.04', 'dens': '0.75', 'act': '13'},
    {'mw': '58.5', 'dens': '1.25', 'act': '310'},     # a second lot of the first enzyme: only the specific activity differs
]


def make_substance(kind, par):
    from pyplate import Substance
    if kind == 'Solid':
        s = Substance.solid('s_solid', float(par['mw']))
        s.density = float(par['dens'])       # stands for config.default_solid_density
    elif kind == 'Liquid':
        s = Substance.liquid('s_liquid', float(par['mw']), float(par['dens']))
    else:
        s = Substance.enzyme('s_enzyme', f"{par['act']} U/g")
        s.density = float(par['dens'])       # stands for config.default_enzyme_density (U/mL)
    return s


def gper(kind, par, b):
    mw, d, a = F(par['mw']), F(par['dens']), F(par['act'])
    if kind == 'Enzyme':
        return {'g': F(1), 'U': 1 / a, 'L': 1000 * d / a, 'mol': None}[b]
    return {'g': F(1), 'mol': mw, 'L': 1000 * d, 'U': None}[b]


def spec(kind, par, q, fp, fb, tp, tb):
    """('reject',) | ('val', Fraction) from chemistry"""
    if fb == 'U' and kind != 'Enzyme':
        return ('reject',)
    x, y = gper(kind, par, fb), gper(kind, par, tb)
    if x is None or y is None:
        return ('val', F(0))
    return ('val', F(q) * fp * x / y / tp)


def coq_subst(kind, par, i):
    return f"{{| sid := {i}; knd := {kind}; mw := {qstr(par['mw'])}; dens := {qstr(par['dens'])}; act := {qstr(par['act'])} |}}"


# ----------------------------------------------------------------------------- configured default densities (separate processes)
CONFIG_DENSITIES = [('2', '50'), ('0.8', '3.5'), ('1', '1')]      # (default_solid_density g/mL, default_enzyme_density U/mL)
WORKER = r"""
import sys, json
from pyplate import Substance, Unit
job = json.load(open(sys.argv[1]))
subs = {'Solid': Substance.solid('s_solid', float(job['mw'])), 'Liquid': Substance.liquid('s_liquid', float(job['mw']), float(job['ldens'])),
        'Enzyme': Substance.enzyme('s_enzyme', job['act'] + ' U/g')}
out = []
for kind, q, fu, tu in job['cells']:
    try:
        out.append(['val', repr(Unit.convert(subs[kind], q + ' ' + fu, tu))])
    except Exception as e:
        out.append(['exc', type(e).__name__])
json.dump(out, open(sys.argv[2], 'w'))
"""


def config_part(chk):
    """substances made by the factories (no density set by hand) under configured default densities, one process per configuration"""
    import os, subprocess, yaml
    base = yaml.safe_load(open(os.path.join(common.REPO, 'pyplate', 'pyplate.yaml')))
    d = os.path.join(common.BUILD, 'cfg')
    os.makedirs(d, exist_ok=True)
    open(os.path.join(d, 'c06_worker.py'), 'w').write(WORKER)
    fails, n = [], 0
    par = {'mw': '58.5', 'ldens': '1.25', 'act': '7000'}
    units = [p + b for b in ('g', 'L', 'mol', 'U') for p in ('', 'm', 'u', 'k', 'da')]
    cells = [(k, q, fu, tu) for k in KINDS for q in ('1.75', '0.004') for fu in units for tu in units
             if (hash((k, fu, tu)) % 7 == 0 or chk.tier == 'thorough' or fu[-1] != tu[-1] and fu[:1] == tu[:1] == '')]
    for sd, ed in CONFIG_DENSITIES:
        cfgd = os.path.join(d, f"c06_{sd}_{ed}".replace('.', '_'))
        os.makedirs(cfgd, exist_ok=True)
        doc = dict(base, default_solid_density=float(sd), default_enzyme_density=float(ed))
        yaml.safe_dump(doc, open(os.path.join(cfgd, 'pyplate.yaml'), 'w'))
        job = dict(par, cells=cells)
        json.dump(job, open(os.path.join(cfgd, 'job.json'), 'w'))
        env = dict(os.environ, PYPLATE_CONFIG=cfgd, PYTHONPATH=common.REPO)
        rc = subprocess.run(['/venv/bin/python', os.path.join(d, 'c06_worker.py'), os.path.join(cfgd, 'job.json'), os.path.join(cfgd, 'out.json')],
                            env=env, stdout=subprocess.PIPE, stderr=subprocess.STDOUT, text=True)
        if rc.returncode != 0:
            fails.append((f"conversion worker failed under default densities {sd} / {ed}: {rc.stdout[-300:]}", {'solid_density': sd, 'enzyme_density': ed}))
            continue
        res = json.load(open(os.path.join(cfgd, 'out.json')))
        for (kind, q, fu, tu), r in zip(cells, res):
            n += 1
            dens = {'Solid': sd, 'Liquid': par['ldens'], 'Enzyme': ed}[kind]
            fp = [x for x in PREFIXES if x[0] == fu[:-len(base_of(fu))]][0][2]
            tp = [x for x in PREFIXES if x[0] == tu[:-len(base_of(tu))]][0][2]
            exp = spec(kind, {'mw': par['mw'], 'dens': dens, 'act': par['act']}, q, fp, base_of(fu), tp, base_of(tu))
            if exp[0] == 'reject':
                ok = r[0] == 'exc'
            else:
                ok = r[0] == 'val' and close(F(float(r[1])), exp[1], 1e-12, 1e-9)
            if not ok and len(fails) < 3:
                fails.append((f"under default_solid_density={sd}, default_enzyme_density={ed}: Unit.convert({kind}, '{q} {fu}', '{tu}') = {r[1]}, "
                              f"chemistry says {float(exp[1]) if exp[0] == 'val' else 'reject'}",
                              {'solid_density': sd, 'enzyme_density': ed, 'kind': kind, 'q': q, 'from': fu, 'to': tu}))
    return fails, n


def base_of(u):
    for b in ('mol', 'L', 'g', 'U'):
        if u.endswith(b):
            return b
    raise ValueError(u)


def cells(chk):
    amounts_all = ['1.75', '0', '-2.5']
    out = []
    npar = 1 if chk.tier == 'quick' else 2
    for pi in range(npar):
        for kind in KINDS:
            for fpn, fpc, fpm in PREFIXES:
                for fbn, fbc in BASES:
                    for tpn, tpc, tpm in PREFIXES:
                        for tbn, tbc in BASES:
                            if chk.tier == 'quick':
                                ams = ['1.75'] + ([chk.rng.choice(amounts_all[1:])] if chk.rng.random() < 0.1 else [])
                            else:
                                ams = amounts_all
                            for q in ams:
                                out.append((pi, kind, q, (fpn, fpc, fpm), (fbn, fbc), (tpn, tpc, tpm), (tbn, tbc)))
    if True:
        # a second lot of the same-named enzyme (only the specific activity differs): unprefixed and milli cells
        p0 = [x for x in PREFIXES if x[0] == ''][0]
        pm = [x for x in PREFIXES if x[0] == 'm'][0]
        for fb in BASES:
            for tb in BASES:
                out.append((2, 'Enzyme', '1.75', p0, fb, p0, tb))
                out.append((2, 'Enzyme', '1.75', pm, fb, p0, tb))
    return out


def run_impl_cell(subs, c):
    from pyplate import Unit
    pi, kind, q, fp, fb, tp, tb = c
    try:
        return ('val', Unit.convert_from(subs[(pi, kind)], float(q), fp[0] + fb[0], tp[0] + tb[0]))
    except Exception as e:  # noqa
        return ('exc', common.exc_class(e))


def storage_cells(only=None):
    """every (storage prefix, prefix, base in {L, mol}, direction): the value against the exact ratio of the prefixes"""
    from pyplate import Unit
    from pyplate.pyplate import config
    saved = (config.volume_storage_unit, config.moles_storage_unit)
    fails = []
    try:
        for sn, _, sm in PREFIXES:
            config.volume_storage_unit, config.moles_storage_unit = sn + 'L', sn + 'mol'
            for pn, _, pm in PREFIXES:
                for b in ('L', 'mol'):
                    for to in (True, False):
                        if only and [sn, pn, b, to] != only:
                            continue
                        v = 3.5
                        exp = F('3.5') * (pm / sm if to else sm / pm)
                        try:
                            got = (Unit.convert_to_storage if to else Unit.convert_from_storage)(v, pn + b)
                            ok = close(got, exp, 0, 1e-9) or abs(F(got) - exp) <= F(1, 10**10)
                        except Exception as e:  # noqa
                            got, ok = common.exc_class(e), False
                        if not ok:
                            fails.append((f"with {b if b == 'L' else 'moles'} stored in {sn + b}: convert_{'to' if to else 'from'}_storage({v}, {pn + b!r}) = {got!r}, "
                                          f"the ratio of the prefixes gives {float(exp)!r}", {'storage_cell': [sn, pn, b, to]}))
    finally:
        config.volume_storage_unit, config.moles_storage_unit = saved
    return fails


def run(chk, gate, status):
    from pyplate import Unit
    from pyplate.pyplate import config
    subs = {(pi, k): make_substance(k, PARAMS[pi]) for pi in range(len(PARAMS)) for k in KINDS}
    cs = cells(chk)
    defs = "\n".join(f"Definition s_{pi}_{k} := {coq_subst(k, PARAMS[pi], 10 * pi + j)}."
                     for pi in range(len(PARAMS)) for j, k in enumerate(KINDS))
    terms = [f"showKindOpt (conv s_{pi}_{kind} {qstr(q)} ({fp[1]}, {fb[1]}) ({tp[1]}, {tb[1]}))"
             for (pi, kind, q, fp, fb, tp, tb) in cs]
    # storage conversions through the public helpers, under the configuration in force
    mol_p = config.moles_storage_unit[:-3]
    vol_p = config.volume_storage_unit[:-1]
    pc = {n: c for n, c, _ in PREFIXES}
    cfg = f"{{| mol_pfx := {pc[mol_p]}; vol_pfx := {pc[vol_p]} |}}"
    stor = []
    for pn, pcn, pm in PREFIXES:
        for v in ['3.5', '0.004']:
            stor.append(('to', 'L', pn, pcn, v)); stor.append(('from', 'L', pn, pcn, v))
            stor.append(('to', 'mol', pn, pcn, v)); stor.append(('from', 'mol', pn, pcn, v))
    for d, b, pn, pcn, v in stor:
        fn = {('to', 'L'): 'to_storage_vol', ('from', 'L'): 'from_storage_vol', ('to', 'mol'): 'to_storage_mol',
              ('from', 'mol'): 'from_storage_mol'}[(d, b)]
        terms.append(f"showQ ({fn} {cfg} {qstr(v)} {pcn})")
    model, errors = common.coq_eval('C06', 'Base Units', terms, chunk=800, defs=defs)
    ncell = len(cs)
    disagreements = 0
    nontrivial = set()
    samples = []
    oracle_fail = 0
    for idx, c in enumerate(cs):
        pi, kind, q, fp, fb, tp, tb = c
        impl = run_impl_cell(subs, c)
        sp = spec(kind, PARAMS[pi], q, fp[2], fb[0], tp[2], tb[0])
        m = model[idx]
        # --- property oracle on the implementation (independent of the model)
        if sp[0] == 'reject':
            ok = impl == ('exc', 'ValueError')
        else:
            ok = impl[0] == 'val' and close(impl[1], sp[1], atol=0, rtol=1e-12) if sp[1] != 0 else impl == ('val', 0)
        if not ok:
            oracle_fail += 1
            if oracle_fail <= 3:
                chk.violation(f"convert_from({kind}, {q}, {fp[0] + fb[0]!r}, {tp[0] + tb[0]!r}) = {impl}, "
                              f"chemistry says {sp}", {'cell': [pi, kind, q, fp[0], fb[0], tp[0], tb[0]],
                                                       'params': PARAMS[pi], 'impl': str(impl), 'expected': str(sp)})
        # --- correspondence implementation vs model
        if m is None:
            agree = False
        elif m[0] == 0:
            agree = impl == ('exc', 'ValueError')
        else:
            agree = impl[0] == 'val' and close(impl[1], F(m[1], m[2]), atol=0, rtol=1e-12)
        if not agree:
            disagreements += 1
            if ok and disagreements <= 3:
                chk.violation(f"model/implementation disagree on convert_from cell {c}: impl {impl} model {m}",
                              {'relation': 'Units.conv ~ Unit.convert_from', 'cell': str(c), 'impl': str(impl),
                               'model': m}, found_input=False)
        if sp[0] == 'val' and sp[1] != 0:
            nontrivial.add((pi, kind, fp[0], fb[0], tp[0], tb[0]))
        if idx % 997 == 0 and len(samples) < 4:
            samples.append({'substance': kind, 'params': PARAMS[pi], 'call': f"convert_from(q={q}, {fp[0] + fb[0]!r}, {tp[0] + tb[0]!r})",
                            'impl': str(impl), 'model': m, 'spec': str(sp)})
    # storage helpers
    for k, (d, b, pn, pcn, v) in enumerate(stor):
        m = model[ncell + k]
        try:
            x = (Unit.convert_to_storage if d == 'to' else Unit.convert_from_storage)(float(v), pn + b)
        except Exception as e:  # noqa
            x = None
        pm = {n: mm for n, _, mm in PREFIXES}
        sm = pm[mol_p] if b == 'mol' else pm[vol_p]
        expect = F(v) * pm[pn] / sm if d == 'to' else F(v) * sm / pm[pn]
        if not close(x, expect, atol=1e-10, rtol=1e-12):
            chk.violation(f"convert_{d}_storage({v}, {pn + b!r}) = {x}, expected {float(expect)}",
                          {'call': [d, v, pn + b], 'impl': x, 'expected': str(expect)})
        if m is None or not close(x, F(m[0], m[1]), atol=1e-10, rtol=1e-12):
            disagreements += 1
    # composition and round trip on the implementation's own outputs (sampled triples)
    comp = 0
    names = [(pn, bn) for pn, _, _ in PREFIXES for bn, _ in BASES]
    for _ in range(600 if chk.tier == 'quick' else 6000):
        pi = chk.rng.randrange(len(PARAMS)); kind = chk.rng.choice(KINDS)
        u1, u2, u3 = (chk.rng.choice(names) for _ in range(3))
        if any(gper(kind, PARAMS[pi], u[1]) is None for u in (u1, u2, u3)):
            continue
        s = subs[(pi, kind)]
        a = Unit.convert_from(s, 1.75, u1[0] + u1[1], u2[0] + u2[1])
        b = Unit.convert_from(s, a, u2[0] + u2[1], u3[0] + u3[1])
        c = Unit.convert_from(s, 1.75, u1[0] + u1[1], u3[0] + u3[1])
        back = Unit.convert_from(s, a, u2[0] + u2[1], u1[0] + u1[1])
        comp += 1
        if not (abs(b - c) <= 1e-12 * abs(c) and abs(back - 1.75) <= 1e-12):
            chk.violation(f"composition/round trip fails for {kind} {u1}->{u2}->{u3}: {b} vs {c}, back {back}",
                          {'kind': kind, 'params': PARAMS[pi], 'units': [u1, u2, u3], 'values': [a, b, c, back]})
    # the storage conversions under every storage configuration (display units left at their defaults, so that a confusion of
    # the two settings shows): convert_to_storage / convert_from_storage are the ratio of the two prefixes
    sfails = storage_cells()
    for msg, doc in sfails[:3]:
        oracle_fail += 1
        chk.violation(msg, doc)
    cfails, ncfg = config_part(chk)
    for msg, doc in cfails[:3]:
        oracle_fail += 1
        chk.violation(msg, dict(doc, kind_of_case='configured default densities'))
    if errors:
        chk.violation('model evaluation failed: ' + errors[0][:300], {'relation': 'coq_eval C06', 'errors': errors[:3]},
                      found_input=False)
    chk.assumptions += ["in the cell enumeration solid / enzyme densities are set on the Substance object; configured defaults are exercised in separate processes (PYPLATE_CONFIG) with substances made by the factories only",
                        "floats compared with rationals at rtol 1e-12 (a handful of IEEE operations per call)"]
    return {
        'evaluations': len(cs) + len(stor) + comp + ncfg, 'programs': len(cs) + len(stor), 'configured_density_cells': ncfg,
        'distinct_nontrivial': len(nontrivial),
        'rule': 'complete enumeration of kind x (prefix,base) x (prefix,base) cells of Unit.convert_from '
                '(quick: one parameter set, one generic amount per cell plus 10% zero/negative; thorough: two '
                'parameter sets x three amounts); non-trivial = finite non-zero factor; distinct by '
                '(params, kind, from prefix/base, to prefix/base)',
        'exhaustive': True,
        'exhaustive_bound': '3 kinds x 40 x 40 unit pairs (the function is linear in the amount and algebraic in mw, density, activity)',
        'disagreements_checked': disagreements, 'samples': samples, 'oracle_failures': oracle_fail,
        'compose_roundtrip_triples': comp, 'translator_status': status.get('UnitsGen'), 'symbolic_extraction_status': status.get('UnitsSym'), 'tie_used': (status.get('tie') or {}).get('UnitsTie'),
    }


def replay(path):
    r = json.load(open(path))
    print(json.dumps(r, indent=1))
    if 'storage_cell' in r:
        f = storage_cells(only=r['storage_cell'])
        for msg, _ in f:
            print('PROPERTY FAILS:', msg)
        print('property', 'FAILS' if f else 'HOLDS', 'on this input')
        return 1 if f else 0
    if 'cell' in r and isinstance(r['cell'], list):
        from pyplate import Unit
        pi, kind, q, fpn, fb, tpn, tb = r['cell']
        s = make_substance(kind, r['params'])
        pm = {n: m for n, _, m in PREFIXES}
        try:
            got = ('val', Unit.convert_from(s, float(q), fpn + fb, tpn + tb))
        except Exception as e:  # noqa
            got = ('exc', common.exc_class(e))
        sp = spec(kind, r['params'], q, pm[fpn], fb, pm[tpn], tb)
        print('implementation now:', got, ' chemistry:', sp)
        ok = (got == ('exc', 'ValueError')) if sp[0] == 'reject' else (got[0] == 'val' and close(got[1], sp[1], 0, 1e-12))
        print('property', 'HOLDS' if ok else 'FAILS', 'on this input')
        return 0 if ok else 1
    return 1
