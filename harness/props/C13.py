"""C13 -- every documented way of addressing wells selects the documented wells.
Tie: correspondence by complete enumeration of the selector grammar on small plates (default and custom labels,
numeric custom labels, rows beyond 'Z'); the model is Slicer.resolve evaluated inside Coq.
Oracle: the documented meaning re-implemented as a comprehension (spec_select), independent of model and code."""
import itertools, json, random
import common
from common import coq_list

RULE = ('complete enumeration of selector forms x plates; non-trivial = accepted selector selecting >= 1 well, or a '
        'rejection of an out-of-range / unknown / malformed selector; distinct by (plate labels, selector document)')


# ----------------------------------------------------------------------------- building selectors
def py_lab(x):
    return x[1]


def py_slice(s):
    return slice(*[None if e is None else py_lab(e) if isinstance(e, list) else e for e in s])


def py_sel(d):
    k = d[0]
    if k == 'single':
        return f"{d[1]}:{d[2]}"
    if k == 'strbad':
        return d[1]
    if k == 'row':
        return d[1]
    if k == 'list':
        out = []
        for e in d[1]:
            if e[0] == 't':
                out.append((py_lab(e[1]), py_lab(e[2])))
            elif e[0] == 's':
                out.append(f"{e[1]}:{e[2]}")
            elif e[0] == 'sbad':
                out.append(e[1])
            elif e[0] == 't1':
                out.append((py_lab(e[1]),))
            elif e[0] == 't3':
                out.append((1, 1, 1))
            else:
                out.append(1.5)
        return out
    if k == 'int':
        return d[1]
    if k == 'slice':
        return py_slice(d[1])
    if k == 'tuple1':
        return (slice(None),)
    if k == 'pair':
        return (py_lab(d[1]), py_lab(d[2]))
    if k == 'ss':
        return (py_slice(d[1]), py_slice(d[2]))
    if k == 'sl':
        return (py_slice(d[1]), py_lab(d[2]))
    if k == 'ls':
        return (py_lab(d[1]), py_slice(d[2]))
    if k == 'badstep':
        return (slice(None, None, 1.5), 1) if d[1] else slice(None, None, 'x')
    if k == 'bad':
        return {'float': 1.5, 'none': None, 't3': (1, 2, 3), 'dict': {'a': 1}, 'fpair': (1.0, 1), 'npair': (None, 1),
                'lpair': ([1], 1)}[d[1]]
    raise KeyError(k)


def cstr(s):
    return '"' + s.replace('"', '""') + '"'


def coq_lab(x):
    if x[0] == 'i':
        return f"(LInt ({int(x[1])})%Z)"
    return f"(LStr {cstr(x[1])})"


def coq_sl(s):
    def o(e):
        return "None" if e is None else f"(Some {coq_lab(e)})"
    st = "None" if s[2] is None else f"(Some ({int(s[2])})%Z)"
    return f"{{| s_start := {o(s[0])}; s_stop := {o(s[1])}; s_step := {st} |}}"


def coq_sel(d):
    k = d[0]
    if k == 'single':
        return f"(SelSingle {cstr(d[1])} {cstr(d[2])})"
    if k == 'strbad':
        return "SelStrBad"
    if k == 'row':
        return f"(SelRowLabel {cstr(d[1])})"
    if k == 'list':
        es = []
        for e in d[1]:
            es.append({'t': lambda: f"(ETuple {coq_lab(e[1])} {coq_lab(e[2])})", 's': lambda: f"(EStr {cstr(e[1])} {cstr(e[2])})",
                       'sbad': lambda: "EStrBad", 't1': lambda: f"(ETuple1 {coq_lab(e[1])})", 't3': lambda: "ETuple3",
                       'other': lambda: "EOtherElem"}[e[0]]())
        return f"(SelList {coq_list(es)})"
    if k == 'int':
        return f"(SelInt ({int(d[1])})%Z)"
    if k == 'slice':
        return f"(SelSlice {coq_sl(d[1])})"
    if k == 'tuple1':
        return "SelTuple1"
    if k == 'pair':
        return f"(SelPair {coq_lab(d[1])} {coq_lab(d[2])})"
    if k == 'ss':
        return f"(SelSS {coq_sl(d[1])} {coq_sl(d[2])})"
    if k == 'sl':
        return f"(SelSL {coq_sl(d[1])} {coq_lab(d[2])})"
    if k == 'ls':
        return f"(SelLS {coq_lab(d[1])} {coq_sl(d[2])})"
    if k == 'badstep':
        return f"(SelBadStep {'true' if d[1] else 'false'})"
    return "SelBad"


# ----------------------------------------------------------------------------- the documented meaning (oracle)
def spec_pos(labels, x):
    """zero-based position denoted by an int (1-based) or a label; None = not on the plate"""
    if x[0] == 'i':
        z = int(x[1])
        return z - 1 if 1 <= z <= len(labels) else None
    return labels.index(x[1]) if x[1] in labels else None


def spec_axis(labels, s):
    """('ok', positions) | ('reject',) | None (the documentation does not say: negative / zero step)"""
    n = len(labels)
    lo = 0 if s[0] is None else spec_pos(labels, s[0])
    hi = n - 1 if s[1] is None else spec_pos(labels, s[1])
    if lo is None or hi is None:
        return ('reject',)
    k = 1 if s[2] is None else s[2]
    if k <= 0:
        return None
    return ('ok', [r for r in range(n) if lo <= r <= hi and (r - lo) % k == 0])


def spec_select(R, C, d):
    """('ok', cells in order, shape) | ('reject',) | None (not judged)"""
    k = d[0]

    def both(a, b, shape2=True):
        if a is None or b is None:
            return None
        if a[0] == 'reject' or b[0] == 'reject':
            return ('reject',)
        return ('ok', [(r, c) for r in a[1] for c in b[1]], (len(a[1]), len(b[1])))

    def one(labels, x):
        p = spec_pos(labels, x)
        return ('reject',) if p is None else ('ok', [p])
    allc = ('ok', list(range(len(C))))
    if k == 'single':
        return both(one(R, ['l', d[1]]), one(C, ['l', d[2]]))
    if k in ('strbad', 'tuple1', 'badstep', 'bad'):
        return ('reject',)
    if k == 'row':
        return both(one(R, ['l', d[1]]), allc)
    if k == 'int':
        return both(one(R, ['i', d[1]]), allc)
    if k == 'slice':
        return both(spec_axis(R, d[1]), allc)
    if k == 'pair':
        return both(one(R, d[1]), one(C, d[2]))
    if k == 'ss':
        return both(spec_axis(R, d[1]), spec_axis(C, d[2]))
    if k == 'sl':
        return both(spec_axis(R, d[1]), one(C, d[2]))
    if k == 'ls':
        return both(one(R, d[1]), spec_axis(C, d[2]))
    if k == 'list':
        cells = []
        for e in d[1]:
            if e[0] == 't':
                r, c = spec_pos(R, e[1]), spec_pos(C, e[2])
            elif e[0] == 's':
                r, c = spec_pos(R, ['l', e[1]]), spec_pos(C, ['l', e[2]])
            else:
                return ('reject',)
            if r is None or c is None:
                return ('reject',)
            cells.append((r, c))
        return ('ok', cells, (len(cells),))
    return None


# ----------------------------------------------------------------------------- enumeration
def slices_for(labels, full):
    n = len(labels)
    ints = list(range(0, n + 2)) if full else [0, 1, n, n + 1]
    ends = [None] + [['i', z] for z in ints] + [['l', l] for l in (labels if full else labels[:1] + labels[-1:])] + [['l', 'Q']]
    steps = [None, 1, 2, 3, 0, -1, -2] if full else [None, 2, -1, 0]
    return [[a, b, c] for a in ends for b in ends for c in steps]


def selectors(R, C, rng, full):
    nr, nc = len(R), len(C)
    out = []
    rl = [['l', l] for l in R] + [['l', 'Q'], ['l', '0']]
    cl = [['l', l] for l in C] + [['l', 'Q'], ['l', '0']]
    ri = [['i', z] for z in range(-1, nr + 2)] + [['i', True]]
    ci = [['i', z] for z in range(-1, nc + 2)]
    for a in rl:
        out.append(['row', a[1]])
        for b in cl:
            out.append(['single', a[1], b[1]])
    out += [['strbad', f"{R[0]}:{C[0]}:{C[0]}"], ['tuple1'], ['badstep', False], ['badstep', True]]
    out += [['bad', k] for k in ('float', 'none', 't3', 'dict', 'fpair', 'npair', 'lpair')]
    out += [['int', z[1]] for z in ri]
    for a in rl + ri:
        for b in cl + ci:
            out.append(['pair', a, b])
    rs, cs = slices_for(R, full), slices_for(C, full)
    out += [['slice', s] for s in rs]
    pick = (lambda xs, k: xs) if full else (lambda xs, k: rng.sample(xs, min(k, len(xs))))
    for s in pick(rs, 25):
        for b in pick(cl + ci, 4):
            out.append(['sl', s, b])
    for a in pick(rl + ri, 4):
        for s in pick(cs, 25):
            out.append(['ls', a, s])
    # slice x slice: the two axes are resolved independently; pair every row slice with a few column slices and vice versa
    for s in pick(rs, 40):
        for t in rng.sample(cs, min(3, len(cs))):
            out.append(['ss', s, t])
    for t in pick(cs, 40):
        for s in rng.sample(rs, min(2, len(rs))):
            out.append(['ss', s, t])
    # lists of up to 3 elements
    elems = [['t', a, b] for a in (ri[1:4] + rl[:2] + rl[-1:]) for b in (ci[1:4] + cl[:2])] + \
            [['s', R[0], C[0]], ['s', R[-1], C[-1]], ['s', 'Q', C[0]], ['sbad', R[0]], ['t1', ['i', 1]], ['t3'], ['other']]
    out.append(['list', []])
    for e in elems:
        out.append(['list', [e]])
    for _ in range(60 if full else 15):
        out.append(['list', [rng.choice(elems[:len(elems) - 5] + elems[-7:-4]) for _ in range(rng.randint(2, 3))]])
    return out


def _flat(d):
    for x in d:
        if isinstance(x, (list, tuple)):
            yield from _flat(x)
        else:
            yield x


def numpy_ints(only=None):
    import numpy
    from pyplate import Plate
    fails = []
    for shape in ((2, 3), (8, 12)):
        plate = Plate('p', '1 mL', rows=shape[0], columns=shape[1])
        names = lambda s: [w.name for w in numpy.asarray(s.get()).flatten()]
        for i in (0, 1, 2, shape[0]):
            for j in (None, 1, shape[1]):
                for ty in (numpy.int64, numpy.int32):
                    if only and [list(shape), i, j, ty.__name__] != only:
                        continue
                    plain = (i,) if j is None else (i, j)
                    sel = tuple(ty(x) for x in plain)
                    try:
                        want = ('ok', names(plate[plain if len(plain) > 1 else plain[0]]))
                    except Exception as e:  # noqa
                        want = ('exc', common.exc_class(e))
                    try:
                        got = ('ok', names(plate[sel if len(sel) > 1 else sel[0]]))
                    except Exception as e:  # noqa
                        got = ('exc', common.exc_class(e))
                    if got[0] == 'ok' and got != want:
                        fails.append((f"plate {shape}: selector {tuple(int(x) for x in sel)} given as {ty.__name__} selects {got[1][:4]}, the plain ints "
                                      f"{'select ' + str(want[1][:4]) if want[0] == 'ok' else 'are refused (' + want[1] + ')'}",
                                      {'kind': 'numpy-int', 'case': [list(shape), i, j, ty.__name__]}))
    return fails


def plates(tier):
    P = []
    shapes = [(r, c) for r in range(1, 5) for c in range(1, 5)] if tier == 'thorough' else [(1, 1), (2, 3), (3, 2), (4, 4), (1, 4), (3, 1)]
    for r, c in shapes:
        P.append(('int', r, c))
    P += [('custom', ['x', 'y', 'z'], ['a', 'b']), ('custom', ['r1', 'r2'], ['3', '1', '2']), ('custom', ['2', '1'], ['c1', 'c2', 'c3']),
          ('custom', ['B', 'A', 'C'], ['7', '8', '9', '10']), ('custom', ['no enzyme', 'enzyme +'], ['0.1 uM', '7.5', 'a-b']),     # labels with blanks, dots, signs
          ('int', 27, 1), ('int', 28, 2)]
    if tier == 'thorough':
        P += [('int', 60, 1), ('int', 703, 1)]
    return P


def make_plate(pd):
    from pyplate import Plate
    if pd[0] == 'int':
        return Plate('p', '1 mL', rows=pd[1], columns=pd[2])
    return Plate('p', '1 mL', rows=list(pd[1]), columns=list(pd[2]))


def observe(plate, d):
    try:
        s = plate[py_sel(d)]
        arr = s.get()
        cells = []
        for w in arr.flatten():
            r, c = w.name[len('well '):].split(',')
            cells.append((plate.row_names.index(r), plate.column_names.index(c)))
        # the shape and size the slice reports (they decide how a transfer pairs the wells) are those of the wells it selects
        if tuple(s.shape) != tuple(arr.shape) or int(s.size) != int(arr.size):
            return ('ok', cells, ('the slice reports shape', tuple(s.shape), 'size', int(s.size), 'but selects', tuple(arr.shape)))
        return ('ok', cells, tuple(arr.shape))
    except Exception as e:  # noqa
        return ('exc', common.exc_class(e))


def decode(m):
    if m is None:
        return None
    if m[0] == 0:
        return ('exc', common.ERR_CODE[m[1]])
    if m[1] == 1:
        nr, nc = m[2], m[3]
        body = m[4:]
        return ('ok', [(body[2 * i], body[2 * i + 1]) for i in range(nr * nc)], (nr, nc))
    k = m[2]
    body = m[3:]
    return ('ok', [(body[2 * i], body[2 * i + 1]) for i in range(k)], (k,))


def exc_ok(impl_exc, model_exc):
    if model_exc in ('ValueError', 'TypeError'):
        return impl_exc == model_exc
    return impl_exc not in ('ValueError', 'TypeError')


def run(chk, gate, status):
    full = chk.tier == 'thorough'
    cases = []
    for pi, pd in enumerate(plates(chk.tier)):
        plate = make_plate(pd)
        rng = random.Random(chk.seed * 31 + pi)
        big = len(plate.row_names) > 6
        sels = selectors(plate.row_names, plate.column_names, rng, full and not big)
        if big:   # rows beyond 'Z': address every row by label, by int, and a few slices
            R = plate.row_names
            sels = [['row', l] for l in R] + [['int', i + 1] for i in range(len(R))] + \
                   [['single', l, plate.column_names[-1]] for l in R] + \
                   [['slice', [['l', R[a]], ['l', R[b]], st]] for a, b, st in ((0, len(R) - 1, 5), (25, len(R) - 1, None), (24, 26, None), (26, 26, None))] + \
                   [['pair', ['l', 'AA'], ['i', 1]], ['pair', ['l', 'BA'], ['i', 1]], ['row', 'AZ'], ['row', 'ZZ'], ['row', 'AAA'], ['row', 'ABA']]
        for d in sels:
            cases.append((pi, pd, plate, d))
    defs = []
    for pi, pd in enumerate(plates(chk.tier)):
        if pd[0] == 'int':
            defs.append(f"Definition R{pi} := default_rows {pd[1]}. Definition C{pi} := default_cols {pd[2]}.")
        else:
            defs.append(f"Definition R{pi} : list string := {coq_list([cstr(x) for x in pd[1]])}%string. "
                        f"Definition C{pi} : list string := {coq_list([cstr(x) for x in pd[2]])}%string.")
    # default labels themselves: the model's generator against the implementation's
    lab_terms = []
    lab_plates = [(pi, pd) for pi, pd in enumerate(plates(chk.tier)) if pd[0] == 'int']
    terms = [f"showResolve R{pi} C{pi} {coq_sel(d)}" for (pi, pd, plate, d) in cases]
    model, errors = common.coq_eval('C13', 'Base Plate Slicer', terms, chunk=1500,
                                    defs="Open Scope string_scope.\n" + "\n".join(defs))
    # label generation: compare as strings through a second evaluation (lists of character codes)
    lab_defs = "Open Scope string_scope.\nFixpoint codes (s : string) : list Z := match s with EmptyString => [] | String a t => Z.of_nat (Ascii.nat_of_ascii a) :: codes t end.\n" \
               "Definition showLabels (l : list string) : list Z := flat_map (fun s => (codes s ++ [0%Z])%list) l.\n"
    lab_model, lab_err = common.coq_eval('C13lab', 'Base Plate Slicer',
                                         [f"(showLabels (default_rows {pd[1]}) ++ [(-1)%Z] ++ showLabels (default_cols {pd[2]}))%list" for _, pd in lab_plates],
                                         chunk=50, defs=lab_defs)
    ndis = nfail = 0
    nontrivial = set()
    dist = {}
    samples = []
    for (pi, pd), m in zip(lab_plates, lab_model):
        plate = make_plate(pd)
        exp = []
        for l in plate.row_names:
            exp += [ord(ch) for ch in l] + [0]
        exp.append(-1)
        for l in plate.column_names:
            exp += [ord(ch) for ch in l] + [0]
        if m != exp:
            ndis += 1
            chk.violation(f"default labels of a {pd[1]}x{pd[2]} plate differ between model and implementation",
                          {'relation': 'Slicer.default_rows/default_cols ~ Plate.__init__', 'plate': list(pd)}, found_input=False)
        # oracle: spreadsheet-style labels, all distinct
        import string as _s
        names = [''.join(t) for k in (1, 2, 3) for t in itertools.product(_s.ascii_uppercase, repeat=k)]
        if plate.row_names != names[:len(plate.row_names)] or plate.column_names != [str(i + 1) for i in range(len(plate.column_names))]:
            nfail += 1
            chk.violation(f"default labels of a {pd[1]}x{pd[2]} plate are not A..Z, AA, AB, ... / 1..n: {plate.row_names[-3:]}",
                          {'plate': list(pd), 'rows': plate.row_names[-5:]})
    for idx, ((pi, pd, plate, d), mraw) in enumerate(zip(cases, model)):
        impl = observe(plate, d)
        m = decode(mraw)
        sp = spec_select(plate.row_names, plate.column_names, d)
        dist[d[0]] = dist.get(d[0], 0) + 1
        if 'True' in json.dumps(d).title() and any(x is True or x is False for x in _flat(d)):
            # a bool where an index is expected is not a documented selector (Python happens to count it as 1 / 0): it may be refused or
            # read as that integer; neither the documented-meaning oracle nor the comparison with the model judges it
            if impl[0] == 'exc' or (sp is not None and sp[0] != 'reject' and impl[0] == 'ok' and impl[1] == sp[1]):
                continue
        # ---- oracle: the documented meaning
        if sp is not None:
            if sp[0] == 'reject':
                ok = impl[0] == 'exc'
            elif len(sp[1]) == 0:
                # an empty selection is not a documented case: it may be refused or select nothing, never select wells
                ok = impl[0] == 'exc' or (impl[0] == 'ok' and len(impl[1]) == 0)
            else:
                ok = impl[0] == 'ok' and impl[1] == sp[1] and impl[2] == sp[2]
            if not ok:
                nfail += 1
                if nfail <= 3:
                    chk.violation(f"plate rows {plate.row_names[:6]} cols {plate.column_names[:6]}: selector {py_sel(d)!r} gives {str(impl)[:200]}, "
                                  f"documented meaning {str(sp)[:200]}", {'plate': list(pd), 'selector': d, 'impl': str(impl), 'expected': str(sp)})
            if (sp[0] == 'ok' and sp[1]) or sp[0] == 'reject':
                nontrivial.add((pi, json.dumps(d)))
        # ---- correspondence
        if m is None:
            agree = False
        elif m[0] == 'exc':
            agree = impl[0] == 'exc' and exc_ok(impl[1], m[1])
        else:
            agree = impl == m
        if not agree:
            ndis += 1
            if ndis <= 3 and (sp is None or ok):
                chk.violation(f"model/implementation disagree on selector {py_sel(d)!r} (plate {pd}): impl {str(impl)[:150]} model {str(m)[:150]}",
                              {'relation': 'Slicer.resolve ~ Slicer.__init__ + get', 'plate': list(pd), 'selector': d,
                               'impl': str(impl), 'model': str(m)}, found_input=False)
        if idx % 4001 == 0 and len(samples) < 4:
            samples.append({'plate': str(pd)[:80], 'selector': repr(py_sel(d)), 'impl': str(impl)[:120], 'model': str(m)[:120]})
    # integers of another integer type (numpy scalars, as produced by numpy.arange): refused, or the wells the plain ints select
    for msg, doc in numpy_ints()[:3]:
        nfail += 1
        chk.violation(msg, doc)
    if errors or lab_err:
        chk.violation('model evaluation failed: ' + (errors + lab_err)[0][:300], {'relation': 'coq_eval C13'}, found_input=False)
    chk.assumptions += ["the string level of 'A:1' (splitting on ':') is glue of the harness; the model starts from the two parts",
                        "negative and zero steps, and slices whose start lies after their stop, are compared with the model only (numpy semantics); the documented-meaning oracle judges positive steps"]
    return {'evaluations': len(cases) + len(lab_plates), 'programs': len(cases), 'distinct_nontrivial': len(nontrivial), 'rule': RULE,
            'exhaustive': True,
            'exhaustive_bound': ('thorough: every selector form with ints -1..n+1, every label + 2 foreign labels, every None/int/label slice end, steps {None,1,2,3,0,-1,-2}, '
                                 'lists up to 3, on all plates <= 4x4 + 5 custom labelings + 27x1, 28x2, 60x1, 703x1; slice x slice pairs stratified' if full else
                                 'quick: the same forms on 6 shapes + 5 custom labelings + 27x1, 28x2 with reduced slice-end sets; slice x slice pairs stratified'),
            'disagreements_checked': ndis, 'oracle_failures': nfail, 'samples': samples, 'generator_distribution': dist}


def replay(path):
    r0 = json.load(open(path))
    if r0.get('kind') == 'numpy-int':
        f = numpy_ints(only=r0['case'])
        for msg, _ in f:
            print('PROPERTY FAILS:', msg)
        print('property', 'FAILS' if f else 'HOLDS', 'on this input')
        return 1 if f else 0
    return replay_(path)


def replay_(path):
    r = json.load(open(path))
    print(json.dumps(r, indent=1)[:2000])
    if 'selector' not in r:
        return 1
    plate = make_plate(tuple(r['plate']))
    impl = observe(plate, r['selector'])
    sp = spec_select(plate.row_names, plate.column_names, r['selector'])
    print('implementation now:', impl, '\ndocumented meaning:', sp)
    ok = sp is None or (impl[0] == 'exc' if sp[0] == 'reject' else (impl[0] == 'ok' and impl[1] == sp[1] and impl[2] == sp[2]))
    print('property', 'HOLDS' if ok else 'FAILS', 'on this input')
    return 0 if ok else 1
