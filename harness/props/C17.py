"""C17 -- remove deletes exactly the selected substances.  Oracle: per addressed container/well no selected substance remains, every other amount is bit-identical, the volume equals the volume of what remains and dropped by the volume of what was removed, name and capacity are kept; other wells identical."""
import random
import common, dsl, gen, histcheck, oracles
from props import C01 as base

RULE = 'non-trivial = remove that actually deletes something from a container/well holding >= 2 substances; distinct by (target kind, selector, kinds present)'
WEIGHTS = {'newc': 1, 'newp': 0.4, 'cc': 4, 'cp': 3, 'pc': 3, 'pp': 4, 'remove': 5, 'fill': 1, 'bad': 1}


def make_cases(chk):
    n = 60 if chk.tier == 'quick' else 600
    hi = 12 if chk.tier == 'quick' else 30
    gens = []
    for i in range(n):
        rng = random.Random(chk.seed * 100003 + 60000 + i)
        gens.append(gen.history(rng, rng.randint(6, hi), weights=WEIGHTS, trace=(i % 6 == 5)))
    
    return gens


def nontrivial(prog, obs):
    return [(('c' if 'c' in op['t'] else 'p'), str(op['w'])) for op, o in zip(prog['ops'], obs) if o['ok'] and op['op'] == 'remove']


def run(chk, gate, status):
    gens = make_cases(chk)
    chk.assumptions += ['the recipe-level clause (discarded amounts in usage tracking) is checked by C09']
    return histcheck.run(chk, gens, oracles.c17, 'C17', RULE, nontrivial)


def replay(path):
    return histcheck.replay(path, oracles.c17)
