"""C17 -- remove deletes exactly the selected substances.  Recipe clause: every remove step of generated recipes (containers, whole
plates, slices) is made a stage of its own and get_substance_used is asked, per substance, over that stage with the step's target as
the only destination: net gain (negative: what was removed, from the independent eager ledger) + reported discarded must be zero;
the same recipes run on the model (Recipe.v) for the correspondence.  Oracle: per addressed container/well no selected substance remains, every other amount is bit-identical, the volume equals the volume of what remains and dropped by the volume of what was removed, name and capacity are kept; other wells identical."""
import random
import common, dsl, gen, histcheck, oracles, recipes
from props import C01 as base

RULE = 'non-trivial = remove that actually deletes something from a container/well holding >= 2 substances; distinct by (target kind, selector, kinds present)'
WEIGHTS = {'newc': 1, 'newp': 0.4, 'cc': 4, 'cp': 3, 'pc': 3, 'pp': 4, 'remove': 5, 'fill': 1, 'bad': 1}


def make_cases(chk):
    n = 60 if chk.tier == 'quick' else 600
    hi = 12 if chk.tier == 'quick' else 16     # the model's exact rationals grow with the length of a history: more histories, not longer ones
    gens = []
    for i in range(n):
        rng = random.Random(chk.seed * 100003 + 60000 + i)
        gens.append(gen.history(rng, rng.randint(6, hi), weights=WEIGHTS, trace=(i % 6 == 5)))
    
    return gens


def directed_solids(chk):
    """wells and containers that hold only solids (no volume at all when the configured solid density is infinite), then removals"""
    out = []
    for i in range(3):
        rng = random.Random(chk.seed * 100003 + 62000 + i)
        g = gen.Gen(rng, kinds=('Solid', 'Liquid'))
        solids = [s for s in g.subs if s['kind'] == 'Solid']
        if not solids:
            continue
        init = [(s['id'], gen.pick_qty(rng, rng.uniform(0.2, 1.0), 'g', sig=2)) for s in solids[:2]]
        c = g.fresh()
        g.emit({'op': 'newc', 'out': c, 'name': g.name(), 'init': init}, 'newc:solids-only')
        g.containers.append(c)
        p = g.new_plate(rows=2, cols=3)
        whole = {'rect': [[0, 1], [0, 1, 2]]}
        o1, o2 = g.fresh(), g.fresh()
        g.emit({'op': 'transfer', 'src': {'c': c}, 'dst': {'p': p, 'r': whole}, 'q': {'v': '5', 'p': 'm', 'b': 'g'}, 'osrc': o1, 'odst': o2}, 'cp:solids-only')
        for r, w in (({'rect': [[0], [0, 1]]}, {'s': solids[0]['id']}), ({'list': [[1, 2], [0, 2]]}, {'k': 'Solid'}), (whole, {'k': 'Solid'})):
            n = g.fresh()
            g.emit({'op': 'remove', 't': {'p': o2, 'r': r}, 'w': w, 'out': n}, 'remove:solids-only')
        n = g.fresh()
        g.emit({'op': 'remove', 't': {'c': o1}, 'w': {'k': 'Solid'}, 'out': n}, 'remove:solids-only')
        out.append(g)
    return out


def nontrivial(prog, obs):
    return [(('c' if 'c' in op['t'] else 'p'), str(op['w'])) for op, o in zip(prog['ops'], obs) if o['ok'] and op['op'] == 'remove']


def recipe_cases(chk):
    """recipes with remove steps; each step is its own stage; queries: every substance over each remove step, destination = its target"""
    n = 14 if chk.tier == 'quick' else 150
    cases = []
    i = 0
    while len(cases) < n and i < 12 * n:
        rng = random.Random(chk.seed * 100003 + 61000 + i)
        i += 1
        rg = recipes.RecipeGen(rng, rng.randint(2, 7), allow_d13=False)
        if rg.failed is not None:
            continue
        # directed: load a whole plate from a container, then remove from PART of it something the other wells keep
        E = rg.eager
        ps = rg.plates()
        srcs = [c for c in rg.containers() if E.env[c].volume > 50 and len(E.env[c].contents) >= 1]
        if ps and srcs:
            P, S = rng.choice(ps), rng.choice(srcs)
            whole = rg.whole(P)
            cells = dsl.region_cells(whole, 0)
            free = min(E.env[P].wells[a, b].max_volume - E.env[P].wells[a, b].volume for a, b in cells)
            f = min(0.3, 0.5 * free / E.env[S].volume * len(cells))
            if f > 0.001 and len(cells) >= 2:
                q, b = rg.g.transfer_qty(E.env[S], f, nshare=len(cells))
                rg.try_step({'op': 'transfer', 'src': {'c': S}, 'dst': {'p': P, 'r': whole}, 'q': q})
                for _ in range(rng.randint(1, 2)):
                    if rg.failed is not None:
                        break
                    r = rg.region(P)
                    tries = 0
                    while r == whole and tries < 5:
                        r = rg.region(P)
                        tries += 1
                    present = [dsl.sid_of(E, x) for x in E.env[S].contents]
                    w = {'s': rng.choice(present)} if rng.random() < 0.7 else {'k': rng.choice(['Solid', 'Liquid', 'Enzyme'])}
                    rg.try_step({'op': 'remove', 't': {'p': P, 'r': r}, 'w': w}, 'remove:part-of-loaded-plate')
        removes = [(k, st) for k, st in enumerate(rg.steps) if st['op'] == 'remove']
        if not removes or rg.failed is not None:
            continue
        rg.stages = [{'name': f"st{k}", 'start': k, 'stop': k + 1} for k in range(len(rg.steps))]
        qs = []
        for k, st in removes:
            target = st['t']['c'] if 'c' in st['t'] else st['t']['p']
            for sd in rg.subs:
                qs.append({'q': 'used', 's': sd['id'], 'stage': f"st{k}", 'unit': 'U' if sd['kind'] == 'Enzyme' else 'umol', 'dests': [target]})
            # what was removed is an outflow of the target over that stage, not an inflow (and both over the whole recipe)
            for stg in (f"st{k}", 'all'):
                for u in ('uL', 'mg'):
                    qs.append({'q': 'flows', 'n': target, 'stage': stg, 'unit': u})
        cases.append((rg, qs))
    return cases


def recipe_oracle(prog, rg, out, qres):
    from props import C09
    fails, known = C09.oracle(prog, rg, out, qres)
    fails = ["recipe remove step: what usage tracking reports as discarded differs from what the step removed -- " + f for f in fails]
    # the baked objects against the same steps applied directly to the wells the generator addressed (however the operand was spelled)
    from props import C15
    f15, k15 = C15.oracle(prog, rg, out, qres)
    fails += ["recipe remove step, flows of the target: " + f for f in f15]
    from props import C08
    f8, k8 = C08.oracle(prog, rg, out, qres)
    fails += ["recipe with remove steps: " + f for f in f8]
    return fails, known + k8


def recipe_nontrivial(prog, rg, out, qres):
    keys = []
    if out[0] != 'ok' or rg.failed is not None:
        return keys
    for q in prog['queries']:
        if q['q'] != 'used':
            continue
        k = int(q['stage'][2:])
        if rg.eager.trash[k].get(q['s']):
            st = prog['steps'][k]
            keys.append(('recipe', 'c' if 'c' in st['t'] else ('whole' if 'rect' in st['t'].get('r', {}) else 'slice'), str(st['w'])))
    return keys


def run(chk, gate, status):
    gens = directed_solids(chk) + make_cases(chk)
    cov = histcheck.run(chk, gens, oracles.c17, 'C17', RULE, nontrivial)
    cov['operations_under_configuration_variants'] = histcheck.variants(chk, directed_solids(chk) + gens, oracles.c17, 'C17v', limit=12 if chk.tier == 'quick' else 60)
    rc = recipes.check(chk, 'C17r', recipe_cases(chk), recipe_oracle, RULE, recipe_nontrivial)
    cov['recipe_clause'] = {k: rc[k] for k in ('programs', 'queries', 'distinct_nontrivial', 'disagreements_checked', 'oracle_failures')}
    cov['evaluations'] += rc['evaluations']
    cov['programs'] += rc['programs']
    cov['disagreements_checked'] += rc['disagreements_checked']
    cov['oracle_failures'] += rc['oracle_failures']
    return cov


def replay(path):
    import json
    if 'recipe' in json.load(open(path)):
        return recipes.replay(path, recipe_oracle)
    return histcheck.replay(path, oracles.c17)
