#!/usr/bin/env python3
"""regenerates MANIFEST.json from the table below (run after adding a property check)"""
import json, os
V = os.path.dirname(os.path.dirname(os.path.abspath(__file__)))
props = [json.loads(l) for l in open(os.path.join(V, 'properties.jsonl'))]
NOTE = ("Trusted: Coq 8.16.1 kernel (full .vo build, vm_compute, no native_compute), translator/py2coq.py where used, "
        "the correspondence harness (DSL executor, Gallina printer, decoder, tolerances) and the hand transcription of "
        "the Python into Gallina, which the correspondence run keeps honest; theorems are over exact rationals with "
        "round() erased (DESIGN.md 1.2, 6). All property theorems print 'Closed under the global context' unless the "
        "evidence lists axioms.")
CLAIMED = {
 'C06': dict(text="Theorems (Coq, all substances/amounts/prefixes/unit pairs): convert_from multiplies by exactly the chemistry factor "
             "(48 cells x prefixes), zero cells, rejection, linearity, composition, round trip, storage conversions inverse. "
             "The branch table and the prefix table are regenerated from the source on every run by the translator and proved "
             "equal to the model; the whole table is also enumerated against the implementation.",
             technique="Coq proof over Q; source-to-Gallina translator re-proved each run; exhaustive table correspondence",
             design="5 C06"),
}
checks = []
for p in props:
    pid = p['id']
    if pid in CLAIMED:
        c = CLAIMED[pid]
        checks.append({
            "property_id": pid, "quick_cmd": f"./check {pid} --tier quick", "thorough_cmd": f"./check {pid} --tier thorough",
            "evidence_file": f"evidence/{pid}.json", "replay_cmd_template": f"./check {pid} --replay {{path}}",
            "engine": "coq-model+correspondence",
            "level_claimed": {"category": "proof", "text": c['text'], "design_ref": "DESIGN.md section " + c['design']},
            "level_note": c.get('note', NOTE), "technique": c['technique']})
m = {"version": 1, "setup_cmd": "./setup.sh",
     "hooks": {"guard": "EKWAN_PYPLATE_VERIF", "enable": "no source hooks exist; checks export EKWAN_PYPLATE_VERIF=1 and import /repo's working tree (PYTHONPATH=/repo)",
               "baseline_off_cmd": "cd /repo && /venv/bin/python -m pytest -ra -q -p no:cacheprovider --timeout=900 --continue-on-collection-errors",
               "source_commits": [], "add_only": True},
     "engines": [{"name": "coq-model", "path": "coq/", "serves_properties": sorted(CLAIMED), "kind_free_text": "hand-written Gallina model over Q and its theorems; Props/Cxx.v holds the property statements"},
                 {"name": "py2coq", "path": "translator/", "serves_properties": [p for p in ("C06", "C11", "C14", "C16") if p in CLAIMED], "kind_free_text": "Python-ast to Gallina translator for the branch-table kernels, regenerated every run"},
                 {"name": "correspondence", "path": "harness/", "serves_properties": sorted(CLAIMED), "kind_free_text": "seeded generators; the same programs run on the implementation and (vm_compute) on the model; property oracle on the implementation"}],
     "checks": checks,
     "notes": "See DESIGN.md. ./check Cxx --tier quick|thorough; fixes to /repo are 'fix:' commits listed in KNOWN_FINDINGS.txt.",
     "not_applicable": [{"property_id": p['id'], "reason": "check not built yet (work in progress; see DESIGN.md section 9 build order)"}
                        for p in props if p['id'] not in CLAIMED]}
json.dump(m, open(os.path.join(V, 'MANIFEST.json'), 'w'), indent=1)
print(len(checks), 'checks claimed')
