#!/usr/bin/env python3
"""regenerates MANIFEST.json from the table below (run after adding a property check)"""
import json, os
V = os.path.dirname(os.path.dirname(os.path.abspath(__file__)))
props = [json.loads(l) for l in open(os.path.join(V, 'properties.jsonl'))]
NOTE = ("Trusted: Coq 8.16.1 kernel (full .vo build, vm_compute, no native_compute), translator/py2coq.py + translator/symex.py + translator/mktie.py where used, "
        "the correspondence harness (DSL executor, Gallina printer, decoder, tolerances) and the hand transcription of "
        "the Python into Gallina, which the correspondence run keeps honest; theorems are over exact rationals with "
        "round() erased (DESIGN.md 1.2, 6). All property theorems print 'Closed under the global context' unless the "
        "evidence lists axioms.")
CLAIMED = {
 'C06': dict(text="Theorems (Coq, all substances/amounts/prefixes/unit pairs): convert_from multiplies by exactly the chemistry factor "
             "(48 cells x prefixes), zero cells, rejection, linearity, composition, round trip, storage conversions inverse. "
             "The branch table and the prefix table are regenerated from the source on every run two ways -- by the ast translator "
             "and by executing convert_from / convert_to_storage / convert_from_storage on symbolic operands (4800 + 400 cells) -- and "
             "each available extraction is proved equal to the model; the whole table is also enumerated against the implementation.",
             technique="Coq proof over Q; source-to-Gallina translator and symbolic execution of the source, both re-proved each run; exhaustive table correspondence",
             design="5 C06"),
 'C01': dict(text="Theorems (Coq, all contents, amounts, units, prefixes, plate sizes, regions): every substance is conserved by "
             "container->container, container->n wells, n wells->container and plate->plate transfers (one-to-many, many-to-one, "
             "element-wise; two plates or disjoint regions of one plate); wells outside the addressed regions are identical; "
             "overlapping regions are refused. Model tied to the code by correspondence on random histories (implementation vs "
             "vm_compute of the model) with a per-substance conservation oracle on the implementation.",
             technique="Coq proof (induction over contents and well lists); differential correspondence on generated histories",
             design="5 C01"),
 'C02': dict(text="Theorems: a successful transfer removes the same fraction r of every substance and adds exactly that to the "
             "destination; the source loses and the destination gains exactly q measured in the unit of q (volume, mass, non-enzyme "
             "moles, activity), any prefix; a container dispensing into n wells loses n*q, one collecting from n wells gains n*q; "
             "each addressed well receives a stand-alone transfer; chains of withdrawals never drift from the original composition.",
             technique="Coq proof over Q (field/nra, induction over well lists and chains); differential correspondence",
             design="5 C02"),
 'C03': dict(text="Theorems: the invariant (no negative amount, no negative volume, volume <= capacity, cached volume = sum of contents) "
             "holds for every value produced by every history of public operations (induction over operation lists, all ten DSL "
             "operations incl. create_solution(_from), dilute, plate transfers); over-draw in any unit, negative quantities, capacity "
             "overflow and fill below the current quantity are refused with ValueError; exact-capacity fills are accepted. "
             "Acceptance of every in-range transfer is checked by correspondence and the independent feasibility oracle (partial).",
             technique="Coq proof (invariant by induction over histories); differential correspondence with on/inside/outside boundary streams",
             design="5 C03"),
 'C05': dict(text="Theorems: the exact solver is sound (gauss_sound: any returned vector satisfies every row; induction over the system size); the "
             "rows mean what the chemistry says (concentration / quantity / total rows <-> statements about the mixture's amounts, any unit "
             "pair); every accepted request has strictly positive amounts, meets the n+1 solved rows exactly and every row within the residual "
             "tolerance; for concentration+total and quantity+total (any number of solutes of any kinds) the RETURNED CONTAINER has exactly the "
             "keys solutes+solvent, positive amounts, every stated concentration read back in its own unit and the total (full statement); for "
             "concentration+quantity all concentrations and the first quantity exactly, the others within tolerance (partial); with a container "
             "solvent the result is a transfer out of it (C01/C02 apply) and both outputs satisfy the invariant. Completeness (a feasible "
             "request is accepted) and LAPACK are left to correspondence + the read-back oracle.",
             technique="Coq proof (Gaussian elimination soundness by induction, row-meaning lemmas, container construction lemmas); differential correspondence with an exact solver; read-back oracle",
             design="5 C05"),
 'C07': dict(text="Theorems: remove / fill_to / transfers in and out of a region act on each addressed well as the stand-alone container "
             "operation (for distinct addresses) and leave every other well identical (Leibniz equality of the well); pairing is "
             "one-to-many, many-to-one or element-wise for equal shapes, every other shape combination is rejected. Correspondence on "
             "histories over plates up to 4x5 with rect/stepped/list regions; oracle recomputes every addressed well with stand-alone "
             "Container operations. Recipe-level fill_to on a slice is a recorded known finding (D13, see C08).",
             technique="Coq proof (fold over addressed wells: frame, well-wise, dispatch); differential correspondence + per-well recomputation",
             design="5 C07"),
 'C10': dict(text="Theorems: after any history the cached volume equals the sum of the volumes of the contents (every container and well); "
             "get_volume and get_concentration equal their definitions from contents (any prefix, numerator/denominator base units); "
             "volumes are additive over transfers; after any history every plate's volume array (get_volumes, any unit prefix) is, well by well, the "
             "volume of that well's contents and Plate.get_volume their sum; with substances named an entry is the sum of those substances' "
             "amounts in that well (PlateObs.v); a slice reports one entry per addressed well and ignores the others; reported volumes of a container and a plate are additive over region transfers (PlateVol.v). The model's arrays are also evaluated in Coq on the same histories and compared with get_volumes / get_volume / row slices of the implementation. The numpy side of the plate observers (get_volumes, get_moles, get_substances: vectorize, "
             "round, slices) is checked against the model's wells by the oracle on the implementation.",
             technique="Coq proof (history invariant + observer definitions); differential correspondence; observer recomputation with exact fractions",
             design="5 C10"),
 'C08': dict(text="Theorems (programs of any length over the whole recipe vocabulary, shared containers/plates/slices): bake is the eager fold over "
             "the current name->object table (equal as functions when no step is a fill_to on a plate region; that case is refuted by a witness "
             "= known finding D13); each step sees the effects of all earlier ones (bake(s1++s2) = bake s2 in the table produced by s1); a step "
             "changes only the objects it names; declaring steps has no effect on declared objects; the returned names are exactly declared + "
             "created. Correspondence on generated programs; oracle = implementation bake vs implementation eager fold.",
             technique="Coq proof (induction over step lists, frame lemma per step kind); differential correspondence; bake-vs-eager oracle",
             design="5 C08"),
 'C15': dict(text="Theorems (any timeframe of any program): get_amount_remaining returns the object's own state in the recipe table at the start "
             "(mode before) / end (mode after) of the timeframe; flows are never negative; a pure withdrawal gives zero inflow; inflow - outflow "
             "telescopes to total(end) - total(start), per well for plates (vector widths as hypothesis). Correspondence + independent eager ledger.",
             technique="Coq proof (telescoping over the snapshot trace using the per-step frame theorem); differential correspondence; independent ledger",
             design="5 C15"),
 'C11': dict(text="Theorems (all containers satisfying the invariant - binary or multi-component, solvent present or not, enzymes as bystanders - all "
             "non-enzyme solvents, all numerator/denominator base-unit pairs, all targets): whenever dilute adds solvent, the solute's "
             "concentration in the requested unit equals the target, only the solvent increased, name/capacity kept, invariant (capacity) holds; "
             "the only other success is the unchanged container (required solvent rounds to zero); a target above the current concentration is "
             "refused; fill_to reaches the target total in L / g / mol by adding only solvent and refuses a target below the current quantity. "
             "Correspondence on histories ending in dilutions and fills; oracle reads the concentration / total back with exact fractions.",
             technique="Coq proof over Q (field/nra); differential correspondence; read-back oracle",
             design="5 C11"),
 'C14': dict(text="Theorems: 'v pU' parses to v x SI factor of p in base unit U for every prefix x base unit and every value; an accepted unit token "
             "IS prefix ++ base unit and every other token is rejected with ValueError (for all strings, via suffix-stripping lemmas); the "
             "prefix table of the source (regenerated each run) equals the model's, which equals SI; 'v pN/qD' and 'v pN/w qD' denote "
             "v(/w) x factor(p)/factor(q) in N per D; M = mol/L and m = mol/kg with any prefix; percent forms are parts per hundred; "
             "'1 M', '1 mmol/mL', '0.01 mmol/10 uL' parse to the same triple; malformed concentrations are rejected. The character level "
             "(float(), blanks, '/') is exercised by the harness, not proved.",
             technique="Coq proof (string suffix lemmas, finite case analysis over the prefix x unit table); translator tie for the prefix table; enumerated correspondence",
             design="5 C14"),
 'C12': dict(text="Theorem csf_sound (every stock satisfying the invariant incl. multi-component stocks with enzyme bystanders, every non-enzyme "
             "solute and pure solvent, every numerator/denominator/quantity base unit): the new solution has exactly the requested total in the "
             "unit of the request and exactly the requested concentration as read back from its contents; every substance but the solvent is "
             "conserved over residual + new solution and the solvent only grows; what left the source is a uniform aliquot; all outputs satisfy "
             "the invariant. Supporting theorems: the 2x2 system by unit, aliquots keep intensive quantities, negative solutions (targets above "
             "the stock) are refused. Container solvent (csf_c_sound): the same for a solvent CONTAINER that may itself hold the solute -- requested "
             "total and concentration, conservation of every substance over the three outputs, uniform aliquots of both inputs, invariants.",
             technique="Coq proof over Q (2x2 exact solve soundness + aliquot lemma + field); differential correspondence; read-back and conservation oracle",
             design="5 C12"),
 'C18': dict(text="Theorems (any two configurations: any supported prefix or none for the moles and the volume storage unit): a simulation relation R "
             "between runs; construction, _self_add, transfer, remove, fill_to take the same decision (same error class) and yield R-related "
             "results; by induction every script of container operations does (crun_R); on R-related states get_volume, get_concentration, "
             "per-substance amounts and totals in every user unit coincide. Extended to whole programs (run_R): plates in every transfer form, remove "
             "and fill_to on regions, dilute, create_solution with a pure solvent; and to recipes (bake_R: same decision, related tables and snapshots) "
             "with the three tracking queries over every timeframe (same answers in user units). Solutions built from a container are covered by "
             "the correspondence: the same generated scripts run in SEPARATE PROCESSES under 7-9 configurations (uL/umol, mL/mmol, nmol, mol, "
             "L, daL, precision 12) are compared pairwise in user units and each against the model under the matching cfg (partial for those).",
             technique="Coq proof (simulation between configurations, induction over scripts); multi-process differential correspondence across configurations",
             design="5 C18"),
 'C13': dict(text="Theorems (all plate sizes, label lists, selectors of the grammar): positions are 1-based and labels/integers interchangeable; "
             "'A:1', ('A','1'), (i,j) and one-element lists denote the same well; the iteration performed for a slice equals the documented "
             "comprehension (both ends included, open ends to the edge, every k-th for a positive step); lists keep their order; nothing "
             "outside the plate is ever selected; off-plate indices/labels and malformed selectors are rejected. Default row labels "
             "A..Z, AA.. resolve to their own row (bounded: complete enumeration up to 1000 rows). Correspondence by complete enumeration "
             "of the selector grammar on small plates incl. custom and numeric labels and rows beyond Z.",
             technique="Coq proof (range = comprehension by induction, case analysis of the selector AST); exhaustive enumerated correspondence",
             design="5 C13"),
 'C16': dict(text="Theorems (all lifecycle states / all call sequences, unbounded): a locked recipe answers every call with RuntimeError and never "
             "changes; a successful bake locks and closes (and records) the open stage; undeclared operands and duplicate names are rejected "
             "with the state unchanged; one open stage, unique stage names, 'all' reserved; a stage records exactly the steps added between its "
             "start and end; in every reachable state bake is refused iff some declared object is unused. The per-method guard table is "
             "regenerated from the source each run and proved equal to the automaton's. Correspondence: every call of a 32-call alphabet (incl. two different objects with one name) from "
             "every lifecycle state reachable within the bound.",
             technique="Coq proof (automaton invariants by induction over call sequences); translator-regenerated guard table; exhaustive state-space correspondence",
             design="5 C16"),
 'C17': dict(text="Theorems: remove leaves no selected substance (substance or class), keeps every other amount unchanged, keeps name and "
             "capacity, and reduces the volume by exactly the volume of what was removed; on plates/slices it is Container.remove on each "
             "addressed well and the identity elsewhere. The recipe clause (discarded amounts in tracking) is decided under C09.",
             technique="Coq proof (filter lemmas over contents, fold over wells); differential correspondence",
             design="5 C17"),
 'C19': dict(text="Theorems (every magnitude incl. sub-micro, every incoming prefix, every substance kind, every configuration): "
             "get_human_readable_unit returns a (value, prefix) pair denoting exactly |v| in the incoming unit, with value >= 1 unless the micro "
             "prefix is reached, and in [1,1000) for amounts from 1e-6 to 1 base units; convert_from_storage_to_standard_format returns "
             "exactly the stored amount in g / L / U. The amounts stated by the instruction lines of transfer (volume of a liquid-holding source, "
             "mass otherwise), fill_to, dilute, create_solution with a container as solvent and create_solution_from are modelled (Instr2.v, InstrSol.v, CsfInstr.v) and proved equal to the "
             "amounts moved / added / drawn; they are compared with the parsed instruction lines on every run. The remaining texts (create_solution "
             "with a substance solvent, create_solution_from with a container solvent, plate-to-plate naming, recipe step instructions) "
             "are checked against the actual deltas by an oracle on the implementation only (partial).",
             technique="Coq proof over Q (case analysis of the rescaling cascade, field); enumerated correspondence over magnitudes x prefixes x kinds; instruction-text read-back oracle",
             design="5 C19"),
 'C04': dict(text="Theorems over an object-level model (Heap.v: containers, well arrays, plates and slice objects as cells of a heap; deepcopy = "
             "fresh cells, copy(slice) = one fresh cell, attribute/item assignment = store): for every operation of the DSL (constructors, "
             "plate[...] , all four transfer forms incl. same-plate, remove, fill_to, dilute, create_solution(_from) on containers, Recipe.uses, and a "
             "whole recipe -- uses(objects), transfer/remove/fill_to/dilute steps written with the user's own objects and slices, bake), "
             "every heap and every argument, the call -- returning or raising at any point, e.g. at a later well -- leaves every cell that "
             "existed as it was, so everything observable through any older object (name, contents, volume, capacity, instruction revision, "
             "every well, the plate a slice points at) is unchanged; results are new cells; by induction nothing observable after a prefix of "
             "a history is changed by any continuation. Tie: correspondence of decisions, returned values AND the identity structure of "
             "everything reachable from every variable. Refinement (HeapRefine.v): each object-level operation (all transfer forms incl. both plate-to-plate "
             "cases, remove / fill_to on slices, remove / fill_to / dilute on containers) returns objects REPRESENTING exactly the results of the "
             "value-level model (Container.v, Plate.v) and fails with the same error otherwise. Recipe create_* steps, the intermediate states between adding steps, and later operations "
             "on baked results are decided by the fingerprint oracle on the implementation only (partial).",
             technique="Coq proof (Hoare-style frame rule over an append-only heap, induction over well loops and histories); differential correspondence incl. object-identity graph; fingerprint oracle around every call",
             design="5 C04"),
 'C09': dict(text="Theorems (every recipe of the step language, every substance incl. ones never used, every duplicate-free destination "
             "set, both treatments of slice fills): the sum the query forms over the snapshots of the whole recipe equals the amount of the "
             "substance inside the destinations after minus before, plus what the remove steps discarded (used_is_net_gain_plus_discarded); for "
             "a stage = steps s2 of s1++s2++s3 exactly those steps count, measured between the table before the first and after the last "
             "(timeframe); consecutive stages add up to their union; the result is converted to the requested unit and a net decrease is "
             "ValueError. Supporting: the substances_used filter never hides a change (per step kind, incl. all plate pairings), an "
             "intra-plate transfer (read twice by the query) nets to zero. Hypotheses, stated in the theorem: substances well formed, the "
             "table satisfies the container invariant, a created name still holds its placeholder when its step runs. Stage bookkeeping "
             "(names -> index ranges) is C16; rounding/noise threshold of the float code by correspondence.",
             technique="Coq proof (frame + telescoping over the name table, filter soundness by case analysis over step kinds and induction over well loops); differential correspondence; independent eager ledger as oracle",
             design="5 C09"),
}
checks = []
for p in props:
    pid = p['id']
    if pid in CLAIMED:
        c = CLAIMED[pid]
        checks.append({
            "property_id": pid, "quick_cmd": f"./check {pid} --tier quick", "thorough_cmd": f"./check {pid} --tier thorough",
            "evidence_file": f"evidence/{pid}.json", "replay_cmd_template": f"./check {pid} --replay {{path}}",
            "engine": "coq-model+correspondence",
            "level_claimed": {"category": "proof", "text": c['text'], "design_ref": "DESIGN.md section " + c['design']},
            "level_note": c.get('note', NOTE), "technique": c['technique']})
m = {"version": 1, "setup_cmd": "./setup.sh",
     "hooks": {"guard": "EKWAN_PYPLATE_VERIF", "enable": "no source hooks exist; checks export EKWAN_PYPLATE_VERIF=1 and import /repo's working tree (PYTHONPATH=/repo)",
               "baseline_off_cmd": "cd /repo && /venv/bin/python -m pytest -ra -q -p no:cacheprovider --timeout=900 --continue-on-collection-errors",
               "source_commits": [], "add_only": True},
     "engines": [{"name": "coq-model", "path": "coq/", "serves_properties": sorted(CLAIMED), "kind_free_text": "hand-written Gallina model over Q and its theorems; Props/Cxx.v holds the property statements"},
                 {"name": "py2coq", "path": "translator/", "serves_properties": [p for p in ("C06", "C11", "C14", "C16") if p in CLAIMED], "kind_free_text": "Python-ast to Gallina translator plus symbolic execution / probing of the source (symex.py) for the branch-table kernels, both regenerated and re-proved every run"},
                 {"name": "correspondence", "path": "harness/", "serves_properties": sorted(CLAIMED), "kind_free_text": "seeded generators; the same programs run on the implementation and (vm_compute) on the model; property oracle on the implementation"}],
     "checks": checks,
     "notes": "See DESIGN.md. ./check Cxx --tier quick|thorough; fixes to /repo are 'fix:' commits listed in KNOWN_FINDINGS.txt.",
     "not_applicable": [{"property_id": p['id'], "reason": "check not built yet at this commit (work in progress; see DESIGN.md section 9 build order)"}
                        for p in props if p['id'] not in CLAIMED]}
json.dump(m, open(os.path.join(V, 'MANIFEST.json'), 'w'), indent=1)
print(len(checks), 'checks claimed')
