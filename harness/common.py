"""common.py -- shared machinery of the checks: build, proof gate, model evaluation inside Coq,
comparison helpers, evidence and verdict."""
import os, sys, re, json, time, subprocess, hashlib, fcntl, glob, random
from fractions import Fraction

VERIF = os.path.dirname(os.path.dirname(os.path.abspath(__file__)))
REPO = os.environ.get('PYPLATE_REPO', '/repo')
COQ = os.path.join(VERIF, 'coq')
BUILD = os.path.join(VERIF, 'build')
NPROC = min(8, os.cpu_count() or 4)

ALLOWED_AXIOMS = {  # axioms the standard library itself declares; anything else fails the proof gate
    'Coq.Logic.FunctionalExtensionality.functional_extensionality_dep',
    'functional_extensionality_dep', 'Classical_Prop.classic', 'classic', 'proof_irrelevance',
    'JMeq_eq', 'Eqdep.Eq_rect_eq.eq_rect_eq', 'eq_rect_eq',
}
FORBIDDEN = re.compile(r'\b(Admitted|admit|Axiom|Parameter|Conjecture|Unset Guard|bypass_check|Admit Obligations)\b'
                       r'|type-in-type|impredicative-set|Unset Universe Checking|Unset Positivity')


def sh(cmd, timeout=1800, cwd=None, env=None):
    p = subprocess.run(cmd, shell=True, cwd=cwd, env=env, stdout=subprocess.PIPE, stderr=subprocess.STDOUT,
                       text=True, timeout=timeout)
    return p.returncode, p.stdout


class Lock:
    def __init__(self, name):
        os.makedirs(BUILD, exist_ok=True)
        self.path = os.path.join(BUILD, name + '.lock')

    def __enter__(self):
        self.f = open(self.path, 'w')
        fcntl.flock(self.f, fcntl.LOCK_EX)
        return self

    def __exit__(self, *a):
        fcntl.flock(self.f, fcntl.LOCK_UN)
        self.f.close()


# ----------------------------------------------------------------------------- build
def prepare_build(log):
    """regenerate the translated files from /repo's working tree and rebuild the Coq development (full .vo)"""
    t0 = time.time()
    with Lock('coqbuild'):
        rc, out = sh(f"python3 {VERIF}/translator/py2coq.py {REPO} {COQ}/gen", timeout=120)
        # second, structure-independent extraction (symbolic execution / probing of the source), then the tie files
        env = dict(os.environ, PYTHONPATH=REPO)
        rc2, out2 = sh(f"timeout 300 /venv/bin/python {VERIF}/translator/symex.py {REPO} {COQ}/gen", timeout=320, env=env)
        if rc2 != 0:
            for nm in ('UnitsSym', 'LifecycleSym'):
                open(os.path.join(COQ, 'gen', nm + '.v'), 'w').write('(* GENERATED: symbolic execution did not finish *)\n')
            json.dump({nm: {'status': 'unsupported', 'reason': 'symex.py exited %s: %s' % (rc2, out2[-200:])} for nm in ('UnitsSym', 'LifecycleSym')},
                      open(os.path.join(COQ, 'gen', 'status_sym.json'), 'w'))
        sh(f"python3 {VERIF}/translator/mktie.py {COQ}/gen", timeout=60)
        try:
            status = json.load(open(os.path.join(COQ, 'gen', 'status.json')))
        except Exception:
            status = {'_translator': 'failed: ' + out[-300:]}
        if not os.path.exists(os.path.join(COQ, 'Makefile')) or \
                os.path.getmtime(os.path.join(COQ, 'Makefile')) < os.path.getmtime(os.path.join(COQ, '_CoqProject')):
            sh("coq_makefile -f _CoqProject -o Makefile", cwd=COQ, timeout=120)
        rc, out = sh(f"timeout 3000 make -k -j{NPROC} 2>&1", cwd=COQ, timeout=3100)
        open(os.path.join(BUILD, 'make.log'), 'w').write(out)
    log['translator'] = status
    log['make_rc'] = rc
    log['make_s'] = round(time.time() - t0, 1)
    return status, rc, out


def textual_gate():
    bad = []
    for path in glob.glob(os.path.join(COQ, '**', '*.v'), recursive=True):
        for i, line in enumerate(open(path, encoding='utf-8', errors='replace'), 1):
            code = re.sub(r'\(\*.*?\*\)', '', line)
            if FORBIDDEN.search(code):
                bad.append(f"{os.path.relpath(path, VERIF)}:{i}: {line.strip()[:100]}")
    return bad


def proof_gate(prop):
    """compile coq/Props/<prop>.v afresh (its dependencies were built by make) and parse Print Assumptions.
    returns dict(ok, obligations, discharged, axioms, theorems, error, cmd)"""
    vfile = os.path.join(COQ, 'Props', prop + '.v')
    cmd = f"coqc -R {COQ} PyPlate {vfile}"
    res = {'ok': False, 'obligations': 0, 'discharged': 0, 'axioms': {}, 'theorems': [], 'error': None,
           'cmd': f"cd {COQ} && make -k -j{NPROC} && {cmd}"}
    if not os.path.exists(vfile):
        res['error'] = 'no property file'
        return res
    text = open(vfile).read()
    thms = re.findall(r'^\s*(?:Theorem|Lemma|Corollary|Example)\s+(\w+)', text, re.M)
    res['theorems'] = thms
    res['obligations'] = len(thms)
    bad = textual_gate()
    if bad:
        res['error'] = 'forbidden construct: ' + '; '.join(bad[:5])
        return res
    with Lock('coqbuild'):
        rc, out = sh(f"timeout 900 {cmd} 2>&1", timeout=1000)
    if rc != 0:
        res['error'] = out[-1500:]
        m = re.search(r'File "([^"]+)", line (\d+)', out)
        if m and m.group(1).endswith(prop + '.v'):
            # name the theorem whose proof no longer checks
            ln = int(m.group(2))
            lines = text.splitlines()
            for k in range(min(ln, len(lines)) - 1, -1, -1):
                mm = re.match(r'\s*(?:Theorem|Lemma|Corollary|Example)\s+(\w+)', lines[k])
                if mm:
                    res['broken_theorem'] = mm.group(1)
                    break
        return res
    # every theorem must be followed by a Print Assumptions; parse the blocks in order
    blocks = re.split(r'(?=Closed under the global context|Axioms:)', out)
    blocks = [b for b in blocks if b.startswith('Closed under') or b.startswith('Axioms:')]
    n_print = len(re.findall(r'^\s*Print Assumptions\s+(\w+)', text, re.M))
    printed = re.findall(r'^\s*Print Assumptions\s+(\w+)', text, re.M)
    if set(printed) != set(thms) or len(blocks) != n_print:
        res['error'] = f"Print Assumptions missing for {sorted(set(thms) - set(printed))} (blocks {len(blocks)}/{n_print})"
        return res
    ok = True
    for name, b in zip(printed, blocks):
        if b.startswith('Closed'):
            res['axioms'][name] = []
        else:
            ax = re.findall(r'^([\w.]+)\s*:', b, re.M)
            ax = [a for a in ax if a != 'Axioms']
            res['axioms'][name] = ax
            for a in ax:
                if a not in ALLOWED_AXIOMS and a.split('.')[-1] not in ALLOWED_AXIOMS:
                    ok = False
                    res['error'] = f"theorem {name} depends on non-standard axiom {a}"
    res['discharged'] = len(blocks) if ok else 0
    res['ok'] = ok
    return res


# ----------------------------------------------------------------------------- model evaluation
def qstr(x):
    """Gallina Q literal for a Fraction / int / decimal string"""
    fr = Fraction(x) if not isinstance(x, Fraction) else x
    if fr.numerator < 0:
        return f"(-{-fr.numerator} # {fr.denominator})"
    return f"({fr.numerator} # {fr.denominator})"


def coq_list(items):
    return "[" + "; ".join(items) + "]"


def coq_eval(tag, imports, terms, chunk=400, timeout=900, defs=''):
    """evaluate each Gallina term (type list Z) with vm_compute; returns list of int-lists (None on failure)"""
    d = os.path.join(BUILD, 'cases')
    os.makedirs(d, exist_ok=True)
    for f in glob.glob(os.path.join(d, f"{tag}_*")):
        os.remove(f)
    files = []
    for k in range(0, len(terms), chunk):
        name = f"{tag}_{k // chunk}"
        path = os.path.join(d, name + '.v')
        with open(path, 'w') as f:
            f.write(f"Require Import {imports}.\nFrom Coq Require Import String.\nOpen Scope Z_scope. Open Scope Q_scope.\n"
                    "Set Printing Width 2000000000. Set Printing Depth 2000000000.\n" + defs + "\n")
            for t in terms[k:k + chunk]:
                f.write(f"Eval vm_compute in ({t}).\n")
        files.append((path, len(terms[k:k + chunk])))
    listing = os.path.join(d, tag + '.files')
    open(listing, 'w').write("\n".join(p for p, _ in files) + "\n")
    cmd = (f"cat {listing} | xargs -P{NPROC} -I{{}} sh -c "
           f"'ulimit -s unlimited 2>/dev/null; timeout {timeout} coqc -R {COQ} PyPlate {{}} > {{}}.out 2>&1; echo $? > {{}}.rc'")
    sh(cmd, timeout=timeout * (len(files) // NPROC + 2))
    results = []
    errors = []
    for path, n in files:
        rc = open(path + '.rc').read().strip() if os.path.exists(path + '.rc') else '?'
        out = open(path + '.out').read() if os.path.exists(path + '.out') else ''
        parts = out.split('     = ')[1:]
        if rc != '0' or len(parts) != n:
            errors.append(f"{os.path.basename(path)}: rc={rc} got {len(parts)}/{n}: {out[-400:]}")
            results.extend([None] * n)
            continue
        for p in parts:
            body = p.split('\n     : ')[0]
            results.append([int(x) for x in re.findall(r'-?\d+', body)])
    return results, errors


class Reader:
    """sequential reader over the flat integer encoding produced by the model's show functions"""

    def __init__(self, ints):
        self.a = ints
        self.i = 0

    def int(self):
        v = self.a[self.i]
        self.i += 1
        return v

    def q(self):
        n = self.int()
        d = self.int()
        return Fraction(n, d)

    def done(self):
        return self.i == len(self.a)


# ----------------------------------------------------------------------------- comparison
def close(x, m, atol=1e-9, rtol=1e-9):
    """implementation float x against model rational m"""
    if x is None or m is None:
        return x is None and m is None
    try:
        fx = Fraction(x)
    except (ValueError, OverflowError):
        return False
    return abs(fx - m) <= Fraction(atol) + Fraction(rtol) * abs(m)


def exc_class(e):
    if isinstance(e, ValueError) and not isinstance(e, (UnicodeError,)):
        import numpy
        if isinstance(e, numpy.linalg.LinAlgError):
            return 'LinAlgError'
        return 'ValueError'
    for n in ('TypeError', 'RuntimeError', 'ZeroDivisionError', 'AttributeError', 'IndexError', 'KeyError',
              'AssertionError'):
        if type(e).__name__ == n:
            return n
    return type(e).__name__


ERR_CODE = {1: 'ValueError', 2: 'TypeError', 3: 'RuntimeError', 4: 'Other'}


# ----------------------------------------------------------------------------- known findings
def known_findings(prop):
    out = []
    path = os.path.join(VERIF, 'KNOWN_FINDINGS.txt')
    for line in open(path):
        line = line.strip()
        m = re.match(r'known:\s+property=(\w+)\s+key=(\S+)\s*(?:replay=(\S+))?\s*::\s*(.*)', line)
        if m and m.group(1) == prop:
            out.append({'key': m.group(2), 'replay': m.group(3), 'what': m.group(4)})
    return out


# ----------------------------------------------------------------------------- verdict / evidence
class Check:
    def __init__(self, prop, tier, seed):
        self.prop, self.tier, self.seed = prop, tier, seed
        self.t0 = time.time()
        self.log = {}
        self.coverage = {}
        self.violations = []   # list of (kind, replay dict)
        self.known_hits = {}
        self.assumptions = []
        self.rng = random.Random(seed)
        os.makedirs(os.path.join(BUILD, 'replay'), exist_ok=True)
        for f in glob.glob(os.path.join(BUILD, 'replay', prop + '_*.json')):
            os.remove(f)

    def violation(self, what, replay, found_input=True):
        if len(self.violations) >= 12:
            return
        replay = dict(replay)
        replay.update({'property': self.prop, 'what': what, 'seed': self.seed, 'tier': self.tier,
                       'failing_input_found': found_input})
        h = hashlib.sha1(json.dumps(replay, sort_keys=True, default=str).encode()).hexdigest()[:10]
        name = f"{self.prop}_{h}.json" if found_input else f"{self.prop}_unproved_{h}.json"
        path = os.path.join(BUILD, 'replay', name)
        json.dump(replay, open(path, 'w'), indent=1, default=str)
        self.violations.append((what, path, found_input))

    def known(self, key, what):
        self.known_hits.setdefault(key, what)

    def finish(self, gate, extra_cov):
        cov = {
            'obligations': gate['obligations'], 'discharged': gate['discharged'],
            'checker_cmd': gate['cmd'],
            'trusted_base': [
                'Coq 8.16.1 kernel (coqc, full .vo build; vm_compute used, native_compute not used)',
                'axioms per theorem (Print Assumptions): ' + json.dumps(
                    {k: (v or 'Closed under the global context') for k, v in gate['axioms'].items()}),
                'translator/py2coq.py (Python ast -> Gallina, fail-closed), translator/symex.py (symbolic execution / probing of the source -> Gallina tables, fail-closed), translator/mktie.py',
                'harness: DSL executor, Gallina printer, output decoder, tolerances (DESIGN.md 4)',
                'hand transcription of the Python into the Gallina model (kept honest by the correspondence run)',
                'modelled not verified: CPython/numpy semantics, IEEE rounding and round(), LAPACK, string formatting',
            ],
            'theorems': gate['theorems'],
        }
        if not cov['discharged']:   # proof gate failed: say so without claiming a discharged count
            cov['proof_gate_failed'] = True
            cov['discharged_count'] = cov.pop('discharged')
        cov.update(extra_cov)
        cov.update(self.coverage)
        cov['known_findings_reproduced'] = sorted(self.known_hits)
        ev = {'property_id': self.prop, 'tier': self.tier, 'seed': self.seed, 'level': 'proof', 'coverage': cov,
              'assumptions': self.assumptions, 'wall_s': round(time.time() - self.t0, 1),
              'violations': len(self.violations), 'log': self.log}
        os.makedirs(os.path.join(VERIF, 'evidence'), exist_ok=True)
        json.dump(ev, open(os.path.join(VERIF, 'evidence', self.prop + '.json'), 'w'), indent=1, default=str)
        for key, what in sorted(self.known_hits.items()):
            print(f"KNOWN-FINDING: property={self.prop} {key}: {what}")
        if self.violations:
            # report the first violation with a concrete input if there is one
            self.violations.sort(key=lambda v: not v[2])
            what, path, found = self.violations[0]
            print(f"[{self.prop}] {len(self.violations)} violation(s); first: {what}")
            print(f"VIOLATION property={self.prop} replay={path}" + ("" if found else " no-failing-input-found"))
            return 1
        print(f"[{self.prop}] ok: {cov.get('discharged')}/{cov['obligations']} obligations, "
              f"{cov.get('evaluations', 0)} correspondence cases, {ev['wall_s']} s")
        return 0
