#!/usr/bin/env python3
"""check.py -- entry point:  ./check Cxx [--tier quick|thorough] [--replay path]"""
import sys, os, argparse, importlib, json, traceback
sys.path.insert(0, os.path.dirname(os.path.abspath(__file__)))
import common


def main():
    ap = argparse.ArgumentParser()
    ap.add_argument('prop')
    ap.add_argument('--tier', default=os.environ.get('VERIF_TIER') or 'quick')
    ap.add_argument('--replay')
    a = ap.parse_args()
    if a.tier not in ('quick', 'thorough'):
        a.tier = 'quick'
    try:
        seed = int(os.environ.get('VERIF_SEED', '1'))
    except ValueError:
        seed = 1
    mod = importlib.import_module('props.' + a.prop)
    if a.replay:
        sys.exit(mod.replay(a.replay))
    chk = common.Check(a.prop, a.tier, seed)
    status, rc, out = common.prepare_build(chk.log)
    gate = common.proof_gate(a.prop)
    chk.log['proof_gate'] = {k: gate[k] for k in ('ok', 'error', 'obligations', 'discharged')}
    try:
        cov = mod.run(chk, gate, status) or {}
    except Exception:
        # a crash of the machinery itself must not look like a pass
        traceback.print_exc()
        chk.violation('check machinery crashed: ' + traceback.format_exc()[-800:], {}, found_input=False)
        cov = {}
    if not gate['ok'] and not any(v[2] for v in chk.violations):
        chk.violation('proof gate: ' + (gate.get('broken_theorem') or '') + ' ' + str(gate['error'])[:600],
                      {'theorem': gate.get('broken_theorem'), 'file': f'coq/Props/{a.prop}.v',
                       'coqc_error': gate['error']}, found_input=False)
    sys.exit(chk.finish(gate, cov))


if __name__ == '__main__':
    main()
