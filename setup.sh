#!/bin/sh
# builds the Coq development from files on disk (offline); the checks rebuild incrementally afterwards
cd "$(dirname "$0")" || exit 2
mkdir -p build coq/gen
python3 translator/py2coq.py "${PYPLATE_REPO:-/repo}" coq/gen >/dev/null
PYTHONPATH="${PYPLATE_REPO:-/repo}" timeout 300 /venv/bin/python translator/symex.py "${PYPLATE_REPO:-/repo}" coq/gen >/dev/null
python3 translator/mktie.py coq/gen >/dev/null
cd coq && coq_makefile -f _CoqProject -o Makefile >/dev/null 2>&1 && timeout 3000 make -k -j16 2>&1 | tail -5
exit 0
